"""C07 Method clocks advance only while running.

Proof half: OPM.Properties.C07 over model M1: for every state and every tick input (arbitrary increments, errors,
commands in flight): Process Time changes only by the increment and only if System State was Running at the
clock update (and when the tick began) during a run; Run Time only while a run is active; every Block Time /
Scope Time timer advances by exactly the increment iff Running, and the tag values move only then; both run
clocks are zero whenever a new run id appears and never decrease while the run id stays.
Tie half: real Engine vs model with clocks observed after every operation, incl. methods with blocks/watches so
that several timers are live, varied increments (0, != tick-time advance, large), hold/pause heavy sessions.
Oracle: the four clock tags of the implementation per tick against the System State at the clock update, and
against the run state itself (run flags, control-state message, operator command history) where the tag says Running.
"""
from __future__ import annotations

import json

from vp.core import Check, Failure, drive, load_corpus

META = dict(
    level_text="Lean 4 theorems over model M1, for EVERY engine state and EVERY tick input (any increment, "
               "hardware/interpreter errors, any commands in flight), hence for every tick of every schedule and "
               "command sequence: a change of Process Time in a tick is either a reset to zero or exactly the "
               "increment, and then System State was Running during a run both when the tick began and at the clock "
               "update; Run Time likewise only while a run is active; every timer behind Block Time and Scope Time "
               "(all open blocks, all active scopes) advances by exactly the increment if Running at the clock "
               "update and by nothing otherwise - in particular not while Paused, Holding, Restarting or after an "
               "error - and the tag values thresholds read move only then; whenever an operation leaves a new run "
               "id, Process Time and Run Time are zero; while the run id stays they never decrease (increments "
               ">= 0; reachable states). Model tied to the real Engine by differential execution.",
    level_note="The theorems are about the repaired code (fixes/C07-clocks-follow-system-state.diff). The code as it "
               "is violates C07 in two ways, both reproduced on the real engine every run and reported as VIOLATION "
               "until the diff is applied: Block Time and Scope Time advance during Hold (and after an error "
               "pause) - Lean witness asIs_clocks_advance_during_hold; Restart begins a new run without zeroing "
               "Process Time / Run Time - asIs_restart_keeps_clocks. (A third defect repaired by the same diff, "
               "the clocks standing still for a whole run after Pause, Stop, Start, is not demanded by C07.) The "
               "tag-value statements are for ticks in which the interpreter starts or ends no block/scope (then the "
               "displayed timer changes identity); the timer-level statement has no such restriction. The model follows "
               "/repo 29706dcf (a run start clears the Scope Time timers and stack; switch scopeReset, probed): a "
               "change of Block Time / Scope Time to 0 at a run start is a reset, not an advance, and - a lemma "
               "beyond the property text - both read 0 whenever an operation leaves a new run id "
               "(block_scope_zero_at_run_start). Trusted: Lean "
               "kernel, harness, model (see C06); times are multiples of 1/8 s.",
    technique="Lean 4 proof (per-tick decomposition read+interpreter / clock update / commands+write; refinement "
              "to a guarded action system for the command phase; decide +kernel witnesses) + differential "
              "correspondence + independent clock oracle",
)
MODULE = "OPM.Properties.C07"
REQUIRED = ["OPM.C07.process_time_only_while_running", "OPM.C07.run_time_only_while_active",
            "OPM.C07.clock_timers", "OPM.C07.block_time_only_while_running",
            "OPM.C07.scope_time_only_while_running", "OPM.C07.zero_at_run_start", "OPM.C07.never_decrease",
            "OPM.C07.block_scope_zero_at_run_start",
            "OPM.C07.asIs_clocks_advance_during_hold", "OPM.C07.asIs_restart_keeps_clocks"]

T = ["tick", 8, 8, 0]
WITNESS_HOLD = {"method": "Mark: a", "ops": [["user", "Start"], T, T, T, ["user", "Hold"], T, T, T]}
WITNESS_RESTART = {"method": "Mark: a", "ops": [["user", "Start"], T, T, T, ["user", "Restart"], T, T, T, T]}


def oracle(case: dict, recs: list[dict]) -> list[Failure]:
    out: list[Failure] = []

    def fail(key, i, msg):
        out.append(Failure(key, {"method": case.get("method", ""), "ops": case["ops"][:i]},
                           f"op {i} {recs[i]['op']}: {msg}"))

    # what the operator last commanded, independent of every engine attribute: paused from the tick that executes
    # an accepted user Pause until an Unpause (user or method), Stop or Restart is requested or the run ends
    # (not used in a run in which the method issued a timed Pause: its timer ends the pause by itself)
    hist_paused = False
    pause_requested = False
    timed_seen = False
    for i in range(1, len(recs)):
        a, b = recs[i - 1], recs[i]
        op = b["op"]
        hist_before = hist_paused
        if op[0] == "user" and b["res"] == "ok":
            if op[1] == "Pause":
                pause_requested = True
            elif op[1] in ("Unpause", "Stop", "Restart"):
                hist_paused = pause_requested = False
        elif op[0] == "tick":
            timed_seen = timed_seen or any(x.startswith("m.pause:") for x in b.get("items", []))
            if timed_seen or any(x.startswith(("m.unpause", "m.stop", "m.restart")) for x in b.get("items", [])):
                hist_paused = pause_requested = False
            elif pause_requested and a["started"] and b["started"] and a["run_id"] == b["run_id"]:
                hist_paused, pause_requested = True, False
        if timed_seen:
            hist_paused = pause_requested = False
        if not b["started"] or a["run_id"] != b["run_id"]:
            hist_paused = pause_requested = timed_seen = False
        # the run state (flags found by role, the control-state message, the command history) against the
        # System State tag: a paused run reports Paused (Restarting while a Restart is under way)
        paused_b = b["started"] and (b["paused"] or b["ctl"][2] or (hist_paused and hist_before))
        if paused_b and b["state"] not in ("Paused", "Restarting"):
            fail("system-state-not-Paused-while-paused", i,
                 f"paused (flag {b['paused']}, control state {b['ctl'][2]}, by command history "
                 f"{hist_paused and hist_before}) but System State {b['state']}")
        new_run = b["run_id"] is not None and b["run_id"] != a["run_id"]
        if new_run and (b["pt"] != 0 or b["rt"] != 0):
            fail("clock-nonzero-at-run-start", i, f"new run id, Process Time {b['pt']}, Run Time {b['rt']}")
        if op[0] != "tick":
            continue
        inc = op[2] / 8
        # "was Running": judged from the System State at the operation boundary before this tick (what
        # process_time_only_while_running proves: Running when the tick began); where the harness could also see
        # the state at the clock update (an instance wrapper that a rename simply disables) that must be Running too
        st, started = a["state"], a["started"]
        if st == "Running" and b.get("state_at_clock") not in (None, "Running"):
            st = b.get("state_at_clock")
        # ... and "Running" means running: not while the run is paused / on hold according to the run state
        # itself (flags, control-state message, command history) at both ends of the tick, whatever the tag says
        if st == "Running" and a["started"] and b["started"] and a["run_id"] == b["run_id"]:
            if (a["paused"] or a["ctl"][2] or hist_before) and (b["paused"] or b["ctl"][2] or hist_paused):
                st = "paused-run-reported-Running"
            elif (a["holding"] or a["ctl"][1]) and (b["holding"] or b["ctl"][1]):
                st = "held-run-reported-Running"
        if a["run_id"] is not None and a["run_id"] == b["run_id"] and inc >= 0:
            if b["pt"] < a["pt"] or b["rt"] < a["rt"]:
                fail("clock-decreases-during-run", i, f"pt {a['pt']}->{b['pt']} rt {a['rt']}->{b['rt']}")
        if b["pt"] != a["pt"] and b["pt"] != 0 and st != "Running":
            fail(f"process-time-advances-while-{st}", i, f"{a['pt']} -> {b['pt']}")
        if b["rt"] != a["rt"] and b["rt"] != 0 and not started:
            fail("run-time-advances-without-run", i, f"{a['rt']} -> {b['rt']}")
        events = any(x in ("bs", "be") or x.startswith(("sa", "se")) for x in b.get("items", []))
        if not events:
            if b["bt"] != a["bt"] and b["bt"] != 0 and st != "Running":
                fail(f"block-time-advances-while-{st}", i, f"{a['bt']} -> {b['bt']}")
            if b["sc"] != a["sc"] and b["sc"] > a["sc"] and st != "Running":
                fail(f"scope-time-advances-while-{st}", i, f"{a['sc']} -> {b['sc']}")
    return out[:1]


def gen_cases(ctx: Check) -> dict[str, list[dict]]:
    from harness import runstate as R
    rng = ctx.rng
    streams: dict[str, list[dict]] = {}
    alpha = [["user", c] for c in R.CMDS] + [T, ["tick", 4, 0, 0], ["tick", 2, 16, 0]]
    methods = ["Mark: a", "Block: B\n    Mark: x\n    Wait: 4s\n    End block\nMark: y",
               "Hold: 0.5s\nPause: 0.5s\nMark: z"]
    streams["exhaustive"] = R.enumerate_sessions(alpha, ctx.n(3, 4), [["user", "Start"], T, T, T], methods)
    rnd = []
    for _ in range(ctx.n(300, 10000)):
        rnd.append(R.gen_session(rng, rng.randrange(8, 41), malformed=False, errors=False, sets=False))
    streams["random"] = rnd
    mal = []
    for _ in range(ctx.n(120, 3000)):
        mal.append(R.gen_session(rng, rng.randrange(8, 41), malformed=True, errors=True, sets=False))
    streams["errors"] = mal
    streams["pause-hold-overlap"] = [R.gen_overlap(rng) for _ in range(ctx.n(120, 2500))]
    return streams


def run(ctx: Check) -> int:
    from harness import runstate as R
    ctx.prove(MODULE, REQUIRED)
    pr = R.probe()
    cfg = dict(pr, clocks=True)
    ctx.extra["tree_variant"] = pr
    runner = R.Runner("c07", cfg)
    corpus = [c for c in load_corpus("C07")] or [WITNESS_HOLD, WITNESS_RESTART]
    streams = {"corpus": corpus}
    streams.update(gen_cases(ctx))
    ctx.rule = ("exhaustive: all sequences <=3/4 over the 7 user commands and three kinds of tick (1 s; advance 0.5 s "
                "increment 0; advance 0.25 s increment 2 s) after Start and three ticks, for a flat method, a method "
                "with a block, a method with timed Hold and Pause; random: adaptive sessions with generated methods "
                "(blocks, watches, timed commands) and varied increments; errors: the same with injected hardware / "
                "API errors, bad arguments; pause-hold-overlap: Pause (operator or error) and Hold (operator or timed "
                "method Hold/Pause) overlapping in either order with either one ending first, varied ticks after "
                "every step. Non-trivial = some clock moved.")
    all_mout, all_cases = [], []
    for name, cases in streams.items():
        _, mout = ctx.correspond(name, "RunState", cases, runner.lines, runner.impl,
                                 nontrivial=lambda c, o: any(" pt=" in ln and " pt=0 " not in ln for ln in o))
        for c in cases:
            for f in oracle(c, runner.recs(c)):
                ctx.fail(f)
            for r in runner.recs(c)[1:]:
                if r["op"][0] == "tick":
                    ctx.count("tick-at:" + str(r.get("state_at_clock")))
                    ctx.count("tick-inc:" + ("0" if r["op"][2] == 0 else "eq" if r["op"][1] == r["op"][2] else "ne"))
                    if any(x in ("bs", "be") for x in r.get("items", [])):
                        ctx.count("tick-with-block-event")
        all_mout += mout
        all_cases += cases
    if all_mout and len(all_mout) == len(all_cases):
        def mutant(c):
            ls = list(runner.lines(c))
            ls[0] = R.cfg_line(dict(cfg, clocks=False), "c07")
            return ls
        n = len(streams["corpus"]) + len(streams["exhaustive"])
        ctx.selftest("exhaustive", "RunState", all_cases[:n], mutant, all_mout[:n])
    ctx.exhaustive = True
    ctx.extra["exhaustive_scope"] = "stream 'exhaustive' only; 'random' and 'errors' are sampled"
    ctx.assumptions = ["times and increments are multiples of 1/8 s (exact in floating point)",
                       "block/scope events of a tick are recorded from the real interpreter and given to the model",
                       "increments are non-negative for the monotonicity clause"]
    return ctx.finish(search=search)


def search(ctx: Check) -> None:
    from harness import runstate as R
    for c in [WITNESS_HOLD, WITNESS_RESTART] + [R.gen_overlap(ctx.rng) for _ in range(ctx.n(150, 1500))] + \
            [R.gen_session(ctx.rng, 40, sets=False) for _ in range(ctx.n(300, 3000))]:
        _, _, recs = R.execute(c, "c07", dict(clocks=True))
        for f in oracle(c, recs):
            ctx.fail(f)
        if ctx.failures:
            return


def replay(obj) -> int:
    from harness import runstate as R
    case = obj.get("case") or (obj.get("disagreements") or [{}])[0].get("case")
    if not case or "ops" not in case:
        print(json.dumps(obj, indent=1)[:2000])
        return 0
    pr = R.probe()
    cfg = dict(pr, clocks=True)
    lines, outs, recs = R.execute(case, "c07", cfg)
    mout = drive("RunState", [lines])[0]
    for ln, a, b in zip(lines, outs, mout):
        print(ln.replace("\t", " "))
        print("   impl :", a)
        print("   model:", b, "" if a == b else "   <-- differs")
    fs = oracle(case, recs)
    for f in fs:
        print("ORACLE:", f.key, "-", f.detail)
    if not fs:
        print("ORACLE: no violation of C07 on this case")
    return 1 if fs else 0
