"""C39 The local run archive reads back exactly.

Proof half: OPM.Properties.C39 — for the csv dialect the archiver uses (QUOTE_NONE, escapechar `\\`, delimiter `,`)
reading a written file gives back every row, for all strings; every row the archiver writes has the header's
column count, for all tag sets and all histories of value changes / marks / rows.
Tie half: (1) the dialect writer vs `csv.writer` on rows that are exhaustive over a small alphabet of all special
characters, (2) the dialect reader vs `csv.reader` on *arbitrary* texts (exhaustive small scope + random),
(3) the archiver model vs the real `ArchiverTag` (+ real Tag / MarkTag objects) writing real files.
"""
from __future__ import annotations

import csv
import io
import itertools
import math
import os
import shutil
import tempfile

from fractions import Fraction

from vp.core import Check, Failure, enc, encb

META = dict(
    level_text="Lean 4 theorems: for the archiver's csv dialect (QUOTE_NONE, escapechar '\\', delimiter ',', "
               "terminator CRLF) reading the concatenation of any written rows returns exactly those rows, for all "
               "field strings (comma, backslash, quote, ';', CR, LF, unicode); for every tag list and every history "
               "of set/simulate/mark/row operations each data row has exactly as many columns as the header and the "
               "file reads back to header + the archived rows. The model is tied to CPython's csv writer/reader and to "
               "ArchiverTag/Tag/MarkTag by differential execution on real files.",
    level_note="Trusted: Lean kernel, the harness, the hand model of CPython 3.12 `_csv` for this one dialect and of "
               "text-file line iteration with newline='' (validated differentially, reader exhaustively on all texts "
               "up to length 4/5 over the special characters). Tag classes whose archive() is None only sometimes do "
               "not exist in the tree (Tag, MarkTag: never None; ArchiverTag: always None) — a UOD-defined subclass "
               "could break the column count and is outside the model. Runs on one archiver whose tag collection differs "
               "from the previous run's (the archiver asks its tags_accessor at every start) are decided by the "
               "property oracle on real files; in the model a change of collection is the replacement of the tag list "
               "after on_stop, and OPM.C39.changed_collection_run proves that the run after it is the run of a fresh "
               "archiver over the new tags (its files have the new header's columns and read back exactly); the "
               "driver's `retag` line is that replacement and the stream archiver-changed-collection compares it with "
               "one real ArchiverTag whose tags_accessor returns another collection from run to run. 'Reads back exactly' is read as: the text that was "
               "written comes back unchanged; for a float tag the written text is, as Tag.archive documents it, the "
               "value in '%0.5f' (the model formats the exact binary value, correctly rounded, ties to even, and is "
               "compared on arbitrary doubles), so the oracle allows |read - value| <= 5e-6 for floats and demands "
               "equality for everything else. Read-back goes (a) through the file with the archiver's dialect and (b) "
               "through the product's own reader ArchiverTag.read_last_run_archive after on_stop. The model follows the "
               "proposed repair fixes/C39-read-archive-keeps-line-breaks.diff (newline='' in that reader): on a tree "
               "without it a string tag value containing CR comes back with LF and the check reports that VIOLATION.",
    technique="Lean 4 proof (reader state machine inverts the writer, by induction over fields/rows; invariant over "
              "archiver operation sequences) + differential correspondence on real files",
)
MODULE = "OPM.Properties.C39"
REQUIRED = ["OPM.C39.read_written_rows", "OPM.C39.archive_reads_back", "OPM.C39.rows_have_header_columns",
            "OPM.C39.finished_archives_read_back", "OPM.C39.run_frame", "OPM.C39.changed_collection_run"]

SPECIAL = [",", "\\", '"', "\r", "\n", "a", ";", " "]
UNITS = [None, "L/h", "%", "degC", "kg", "mS/cm"]
RUN_ID = "run-1"
MARK_NAME, ARCHIVER_NAME = "Mark", "Archive filename"   # SystemTagName.MARK / ARCHIVER (checked in Rig)


# ----------------------------------------------------------------------------------------------
# wire encodings (mirror of Driver/Archive.lean)

def enc_row(r):
    return "E" if not r else ";".join(enc(f) for f in r)


def enc_rows(rs):
    return "N" if not rs else "|".join(enc_row(r) for r in rs)


def enc_val(v):
    if v is None:
        return "n"
    if isinstance(v, float):
        num, den = abs(v).as_integer_ratio()          # the exact binary value
        return f"f:{encb(math.copysign(1.0, v) < 0)}:{num}:{den}"
    if isinstance(v, int):
        return f"i:{v}"
    return "s:" + enc(v)


def py_write(row) -> str:
    f = io.StringIO(newline="")
    w = csv.writer(f, delimiter=",", quoting=csv.QUOTE_NONE, escapechar="\\")
    try:
        w.writerow(row)
    except csv.Error:
        return "err:single-empty-field"
    return "ok\t" + enc(f.getvalue())


def py_read_text(text: str, tmp: str) -> str:
    """Read `text` back the way a consumer of the archive does: file opened with newline='', same dialect."""
    p = os.path.join(tmp, "r.txt")
    with open(p, "w", newline="", encoding="utf-8") as f:
        f.write(text)
    return py_read_file(p)


def py_read_file(path: str) -> str:
    try:
        with open(path, "r", newline="", encoding="utf-8") as f:
            rows = list(csv.reader(f, delimiter=",", quoting=csv.QUOTE_NONE, escapechar="\\"))
    except csv.Error:
        return "err:newline"
    return "ok\t" + enc_rows(rows)


# ----------------------------------------------------------------------------------------------
# generators

def words(alpha, maxlen):
    out = [""]
    for k in range(1, maxlen + 1):
        out += ["".join(t) for t in itertools.product(alpha, repeat=k)]
    return out


def rand_text(rng, lo=0, hi=10):
    alpha = SPECIAL + ["é", "\t", "€", "x", "7", "'", "|", "\x0b", "\u2028"]
    return "".join(rng.choice(alpha) for _ in range(rng.randrange(lo, hi)))


def gen_rows(ctx: Check):
    alpha = SPECIAL[:6]
    ws = words(alpha, 2)
    rows = [[]] + [[a] for a in ws] + [[a, b] for a in ws for b in ws]
    if ctx.tier == "thorough":
        w3 = words(SPECIAL[:5], 3)
        rows += [[a] for a in w3] + [[a, b, c] for a in ws[:20] for b in ws[:20] for c in ws[:20]]
    rng = ctx.rng
    for _ in range(ctx.n(400, 8000)):
        rows.append([rand_text(rng) for _ in range(rng.randrange(0, 6))])
    return rows


def gen_texts(ctx: Check):
    alpha = SPECIAL[:6]
    texts = words(alpha, ctx.n(4, 5))
    rng = ctx.rng
    for _ in range(ctx.n(500, 10000)):
        texts.append(rand_text(rng, 0, 14))
    return texts


def gen_archiver_cases(ctx: Check):
    rng = ctx.rng
    cases = []
    for ci in range(ctx.n(150, 2500)):
        tags = []
        for i in range(rng.randrange(0, 6)):
            nm = rng.choice(["T", "Flow,rate", 'Tag"q', "A\\B", "pH", "Système", "x;y", "Level [cm]"]) + str(i)
            tags.append(["p", nm, rng.choice(UNITS)])
        if rng.random() < 0.85:
            tags.insert(rng.randrange(0, len(tags) + 1), ["m", MARK_NAME, None])
        if rng.random() < 0.6:
            tags.insert(rng.randrange(0, len(tags) + 1), ["s", ARCHIVER_NAME, None])
        ops = []
        if rng.random() < 0.25:
            ops += _value_ops(rng, tags, rng.randrange(1, 4))   # values and marks set before the header is written
        ops.append(["start"])
        for _ in range(rng.randrange(1, ctx.n(8, 14))):
            ops += _value_ops(rng, tags, rng.randrange(0, 4))
            ops.append(["row"])
            if rng.random() < 0.04:
                ops.append(["start"])   # on_start again for the same file name: header must not be repeated
            k = rng.random()
            if k < 0.10 and ops[-1][0] != "stop":
                # Stop; the next run starts in a later second: normally, or below the disk-space guard (no file is
                # prepared: the run gets no archive), possibly followed by a normal start in that same second
                ops.append(["stop"])
                ops += _value_ops(rng, tags, rng.randrange(0, 3))
                ops.append(["startlow"] if rng.random() < 0.5 else ["start"])
                if ops[-1][0] == "startlow" and rng.random() < 0.25:
                    ops.append(["start"])
            elif k < 0.13:
                ops.append(["startlow"])   # low disk reported while the run's file is already there: rows go on
        if ops[-1][0] in ("start", "startlow") and rng.random() < 0.5:
            ops.append(["row"])
        cases.append({"tags": tags, "ops": ops})
    return cases


NASTY_FLOATS = [0.0, -0.0, 1e-6, -1e-7, 4.9999e-6, 5e-6, 5.0000001e-6, 1 / 64, 3 / 64, -5 / 64, 0.1, 0.000015, 2.675,
                123.4567891, -987654.321987, 1e15 + 0.25, 1e22, 0.99999949999, 0.999995, 9.999995, 1 / 3, 2.5e-5]


def _rand_val(rng):
    k = rng.random()
    if k < 0.1:
        return None
    if k < 0.2:
        return rng.randrange(-64000, 64000) / 32.0          # exactly representable at 5 decimals
    if k < 0.32:
        return rng.choice(NASTY_FLOATS)                      # ties, tiny values, signed zero, many digits
    if k < 0.45:
        return rng.uniform(-1, 1) * 10 ** rng.randrange(-7, 9)   # arbitrary doubles
    if k < 0.6:
        return rng.randrange(-1000, 100000)
    if k < 0.75:
        return rng.choice(["Running", "A,B", "Hold;x", "C:\\dir", 'say "hi"', "", "x\ny", "é€", "a\rb", "x\r\ny"])
    return rand_text(rng, 0, 8)


def _value_ops(rng, tags, n):
    ops = []
    plain = [i for i, t in enumerate(tags) if t[0] == "p"]
    marks = [i for i, t in enumerate(tags) if t[0] == "m"]
    for _ in range(n):
        k = rng.random()
        if marks and k < 0.45:
            txt = rng.choice(["A", "B, C", "d; e", "path\\to", 'q"uote', "x,y;z\\", ", ", "\\", "\\,", ',"'])
            if rng.random() < 0.4:
                txt = rand_text(rng, 1, 9)
            ops.append(["mark", marks[0], txt])
        elif plain and k < 0.85:
            ops.append(["set", rng.choice(plain), _rand_val(rng)])
        elif plain and k < 0.95:
            ops.append(["sim", rng.choice(plain), _rand_val(rng)])
        elif plain:
            ops.append(["stopsim", rng.choice(plain)])
    return ops


# ----------------------------------------------------------------------------------------------
# driving the real archiver

def time_str(k: int) -> str:
    return f"2026-01-01 00:{(k // 60) % 60:02d}:{k % 60:02d}.{(k * 125000) % 1000000:06d}+00:00"


class controlled_clock:
    """Context manager: while it is active `datetime.datetime.now()` gives the rig's time, however the code under
    test reaches the class (`from datetime import datetime`, `import datetime`, `import datetime as _dt`): the class
    is replaced in the `datetime` MODULE by a subclass, and every global of the archiver module that *is* the real
    class is replaced too.  `str(now)` is the row time of the rig's clock, `now.strftime(...)` the stamp of the rig's
    current second (file names: a repeated on_start within a run finds the run's file, the run after a Stop gets the
    next name).  Everything is restored on exit."""

    def __init__(self, rig):
        self.rig = rig

    def __enter__(self):
        import datetime as D
        rig, real = self.rig, D.datetime
        self.D, self.real = D, real

        class ControlledDatetime(real):
            @classmethod
            def now(cls, tz=None):
                k = rig.clock
                t = real.__new__(cls, 2026, 1, 1, 0, (k // 60) % 60, k % 60, (k * 125000) % 1000000, tzinfo=tz)
                t.rig_clock, t.rig_second = k, rig.second
                return t

            def __str__(self):
                return time_str(self.rig_clock) if hasattr(self, "rig_clock") else real.__str__(self)

            def strftime(self, fmt):
                if hasattr(self, "rig_second"):
                    return f"2026-01-01_{self.rig_second:06d}"
                return real.strftime(self, fmt)

        D.datetime = ControlledDatetime
        self.patched = [name for name, v in vars(rig.A).items() if v is real]
        for name in self.patched:
            setattr(rig.A, name, ControlledDatetime)
        return self

    def __exit__(self, *exc):
        self.D.datetime = self.real
        for name in self.patched:
            setattr(self.rig.A, name, self.real)
        return False


class low_disk:
    """Context manager: the drive of the archive directory reports 2 MB free (below VERY_LOW_DISKSPACE_MB), on the
    library side (`os.statvfs`) and through the archiver's public `get_free_space_mb`."""

    def __init__(self, A):
        self.A = A

    def __enter__(self):
        import types
        self.statvfs, self.free = os.statvfs, self.A.get_free_space_mb
        real = os.statvfs

        def statvfs(path):
            r = real(path)
            return types.SimpleNamespace(**{k: getattr(r, k) for k in dir(r) if k.startswith("f_")} |
                                         {"f_frsize": 4096, "f_bsize": 4096, "f_bavail": 512, "f_bfree": 512})
        os.statvfs = statvfs
        self.A.get_free_space_mb = lambda dirname: 2
        return self

    def __exit__(self, *exc):
        os.statvfs = self.statvfs
        self.A.get_free_space_mb = self.free
        return False


class Rig:
    """Real ArchiverTag over real Tag/MarkTag objects, writing into a private temp directory."""

    def __init__(self, case, tmp):
        import openpectus.engine.archiver as A
        from openpectus.lang.exec.tags import Tag, TagCollection
        from openpectus.lang.exec.tags_impl import MarkTag
        from openpectus.lang.exec.runlog import RunLog
        self.A = A
        self.clock = 0
        self.second = 0
        self.stopped = False
        self.data_path = None
        self.coll = TagCollection()
        self.tags = []
        self.spy: list[list] = []      # per archive-all call: the values archive() returned, in tag order
        self._cur: list | None = None
        old_file = A.__file__
        A.__file__ = os.path.join(tmp, "archiver.py")
        try:
            for kind, name, unit in case["tags"]:
                if kind == "m":
                    t = MarkTag()
                    assert str(t.name) == MARK_NAME
                elif kind == "s":
                    t = A.ArchiverTag(lambda: RunLog(), lambda: self.coll, 1.0)
                    self.archiver = t
                    assert str(t.name) == ARCHIVER_NAME
                else:
                    t = Tag(name, unit=unit)
                self.tags.append(t)
                self.coll.add(t, exist_ok=False)
            if not any(k == "s" for k, _, _ in case["tags"]):
                # archiver that is not itself a member of the collection
                self.archiver = A.ArchiverTag(lambda: RunLog(), lambda: self.coll, 1.0)
        finally:
            A.__file__ = old_file
        for t in self.tags:
            self._wrap(t)

    def _wrap(self, t):
        orig = t.archive

        def spying():
            v = orig()
            if self._cur is not None:
                self._cur.append(v)
            return v
        t.archive = spying

    def op(self, op):
        import contextlib
        with controlled_clock(self):
            if op[0] in ("start", "startlow"):
                with (low_disk(self.A) if op[0] == "startlow" else contextlib.nullcontext()):
                    self.archiver._on_before_start(RUN_ID)   # what the event emitter does before on_start
                    self.archiver.on_start(RUN_ID)
                self.stopped = False
            elif op[0] == "stop":
                self.archiver.on_stop()
                self.stopped = True
                self.second += 1
            elif op[0] == "row":
                self.clock += 1
                self._cur = []
                self.archiver.write_tags_row()
                self.spy.append(["row", time_str(self.clock), self._cur])
                self._cur = None
            elif op[0] == "set":
                self.tags[op[1]].set_value(op[2], 1.0)
            elif op[0] == "sim":
                self.tags[op[1]].simulate_value(op[2], 1.0)
            elif op[0] == "stopsim":
                self.tags[op[1]].stop_simulation()
            elif op[0] == "mark":
                self.tags[op[1]].set_value(op[2], 1.0)

    def retag(self, case):
        """Between two runs: the collection the archiver's tags_accessor returns is a different one (other tags,
        other order, the archiver itself a member at another position or not at all).  Same archiver instance."""
        from openpectus.lang.exec.tags import Tag, TagCollection
        from openpectus.lang.exec.tags_impl import MarkTag
        self.coll = TagCollection()
        self.tags = []
        for kind, name, unit in case["tags"]:
            t = MarkTag() if kind == "m" else self.archiver if kind == "s" else Tag(name, unit=unit)
            self.tags.append(t)
            self.coll.add(t, exist_ok=False)
            if kind != "s":
                self._wrap(t)
        self.clock = 0

    def path(self):
        return self.archiver.file_path

    def stop_and_read(self):
        """The product's own read-back path: Stop (unless the history ended with one), then the text
        `create_run_stopped_msg` ships as the archive; None when that run has no archive file."""
        if not self.stopped:
            self.op(["stop"])
        try:
            return self.archiver.read_last_run_archive(RUN_ID)
        except FileNotFoundError:
            return None

    def files(self) -> list[str]:
        """Every archive file the archiver left behind, oldest first."""
        d = self.archiver.data_path
        return [os.path.join(d, fn) for fn in sorted(os.listdir(d)) if fn.startswith("archiver-2")]


def op_line(op, clock):
    if op[0] in ("start", "stop", "startlow"):
        return op[0]
    if op[0] == "row":
        return "row\t" + enc(time_str(clock))
    if op[0] in ("set", "sim"):
        return f"{op[0]}\t{op[1]}\t{enc_val(op[2])}"
    if op[0] == "stopsim":
        return f"stopsim\t{op[1]}"
    return f"mark\t{op[1]}\t{enc(op[2])}"


def case_lines(case):
    spec = "|".join(f"{k};{enc(n)};{'N' if u is None else enc(u)}" for k, n, u in case["tags"]) or "N"
    out = ["tags\t" + spec]
    clock = 0
    for op in case["ops"]:
        if op[0] == "row":
            clock += 1
        out.append(op_line(op, clock))
    if case["ops"][-1][0] != "stop":
        out.append("stop")
    return out + ["files", "readall", "last"]


def dialect():
    """The dialect the archiver module declares (so the oracle follows a consistent change of it)."""
    import openpectus.engine.archiver as A
    return dict(delimiter=A.delimiter, quoting=A.quoting, escapechar=A.escapechar)


def parse_text(text: str, **fmt) -> str:
    fmt = fmt or dict(delimiter=",", quoting=csv.QUOTE_NONE, escapechar="\\")
    try:
        rows = list(csv.reader(io.StringIO(text, newline=""), **fmt))
    except csv.Error:
        return "err:newline"
    return "ok\t" + enc_rows(rows)


def run_case(case, tmp):
    """Drive the real code; returns (answer lines, archive file paths, text returned by read_last_run_archive)."""
    d = tempfile.mkdtemp(dir=tmp)
    rig = Rig(case, d)
    out = ["ok"]
    for op in case["ops"]:
        rig.op(op)
        out.append("ok")
    if not rig.stopped:
        out.append("ok")
    try:
        shipped = rig.stop_and_read()
        last = "nofile" if shipped is None else enc(shipped)
    except Exception as e:
        shipped, last = e, f"err:{type(e).__name__}"
    paths = rig.files()
    texts = []
    for p in paths:
        with open(p, "r", newline="", encoding="utf-8") as f:
            texts.append(f.read())
    out.append(str(len(paths)) + "".join("\t" + enc(t) for t in texts))
    out.append(str(len(paths)) + "".join(" # " + py_read_file(p) for p in paths))
    out.append(last)
    return out, paths, shipped


MARK_SEPARATOR = "; "   # the documented separator of successive marks (tags_impl.MARK_SEPARATOR)


def expected_files(case):
    """The 'archived values' of the property, derived ONLY from what was set on the tags (never from what
    archive() returned), per archive file: per data row the time, the current value of every tag with a column (the
    simulated value while simulating) and, for the Mark tag, the mark texts set since the previous line that was
    written, joined by the Mark separator.  The header line is a line of a file too: as the code is, it evaluates
    the tags like a row, so marks set before it belong to the header line and are not expected in a data row.
    A run that is started below the disk-space guard gets no file and no rows: what was archived is judged from the
    files that exist.  Returns (list of row lists, index of the file of the last run or None)."""
    tags = case["tags"]
    vals = {i: None for i, t in enumerate(tags) if t[0] == "p"}
    sims: dict[int, object] = {}
    marks = {i: [] for i, t in enumerate(tags) if t[0] == "m"}
    clock, ready, files, cur, last = 0, False, [], None, None
    ops = list(case["ops"]) + ([] if case["ops"][-1][0] == "stop" else [["stop"]])
    for op in ops:
        if op[0] == "start":
            if cur is None:
                for m in marks.values():
                    m.clear()
                files.append([])
                cur = len(files) - 1
            ready = True
        elif op[0] == "stop":
            last, cur, ready = cur, None, False
        elif op[0] == "row":
            clock += 1
            if not ready:
                continue
            cells = [time_str(clock)]
            for i, t in enumerate(tags):
                if t[0] == "p":
                    cells.append(sims[i] if i in sims else vals[i])
                elif t[0] == "m":
                    cells.append(MARK_SEPARATOR.join(marks[i]))
                    marks[i].clear()
            files[cur].append(cells)
        elif op[0] == "set":
            vals[op[1]] = op[2]
        elif op[0] == "sim":
            sims[op[1]] = op[2]
        elif op[0] == "stopsim":
            sims.pop(op[1], None)
        elif op[0] == "mark":
            marks[op[1]].append(op[2])
    return files, last


def expected_header(case):
    """'Datetime (UTC)' and one cell per tag with a column: its name, with ' [unit]' when it has a unit."""
    return ["Datetime (UTC)"] + [n if u is None else f"{n} [{u}]" for k, n, u in case["tags"] if k != "s"]


FLOAT_TOLERANCE = Fraction(5, 10 ** 6)   # half a unit of the 5th decimal: Tag.archive writes floats as '%0.5f'


def cell_matches(cell: str, want, fold_newlines=False) -> bool:
    if want is None:
        return cell == ""
    if isinstance(want, bool):
        return cell == str(want)
    if isinstance(want, int):
        return cell == str(want) or _as_fraction(cell) == want     # 2.0 set on a tag holding 2 leaves the int
    if isinstance(want, float):
        got = _as_fraction(cell)
        return got is not None and abs(got - Fraction(want)) <= FLOAT_TOLERANCE
    if fold_newlines:
        return cell == want.replace("\r", "\n")   # each CR is a line end of its own behind the escapechar
    return cell == want


def _as_fraction(cell: str):
    try:
        return Fraction(cell)
    except (ValueError, ZeroDivisionError):
        return None


FILE_KEYS = dict(nohdr="archive-has-no-header", cols="row-column-count-differs-from-header",
                 count="archive-row-count-differs", value="archived-value-differs-from-tag-value",
                 nl="archived-value-line-breaks-changed")
SHIPPED_KEYS = dict(nohdr="read_last_run_archive-has-no-header", cols="read_last_run_archive-column-count-differs",
                    count="read_last_run_archive-row-count-differs", value="read_last_run_archive-value-differs",
                    nl="read_last_run_archive-changes-line-breaks-in-values")


def compare_rows(rows, expected, header, keys, case, fails):
    """rows = what was read back (header first); expected = the values set on the tags."""
    if not rows:
        fails.append(Failure(keys["nohdr"], case, "archive is empty after on_start"))
        return
    for i, r in enumerate(rows[1:], 1):
        if len(r) != len(header):
            fails.append(Failure(keys["cols"], case,
                                 f"row {i} has {len(r)} columns, header has {len(header)}: {r!r} vs {header!r}"))
            return
    if len(rows) - 1 != len(expected):
        fails.append(Failure(keys["count"], case,
                             f"{len(rows) - 1} data rows read back, {len(expected)} rows were written"))
        return
    for k, (got, want) in enumerate(zip(rows[1:], expected)):
        if len(got) != len(want):
            fails.append(Failure(keys["cols"], case,
                                 f"data row {k} has {len(got)} columns, {len(want)} tags have a column (+time)"))
            return
        bad = [j for j, (c, w) in enumerate(zip(got, want)) if not cell_matches(c, w)]
        if bad:
            j = bad[0]
            only_newlines = all(cell_matches(c, w, fold_newlines=True) for c, w in zip(got, want))
            fails.append(Failure(keys["nl"] if only_newlines else keys["value"], case,
                                 f"data row {k}, column {j} ({header[j] if j < len(header) else '?'!r}): read back "
                                 f"{got[j]!r}, the tag held {want[j]!r}"))
            return


def oracle_archive(case, tmp) -> list[Failure]:
    """The property, stated over every file the archiver leaves behind, the product's own reader and the values that
    were set on the tags: each file starts with the header naming its columns, every data row has the header's
    columns; reading back — (a) the file with the archiver's dialect, (b) the text
    ArchiverTag.read_last_run_archive returns for the last run (what is shipped as the run's archive) — gives the
    tag values / mark texts unchanged (floats: as written, i.e. within half a unit of the 5th decimal)."""
    _, paths, shipped = run_case(case, tmp)
    fmt = dialect()
    fails: list[Failure] = []
    expected, last = expected_files(case)
    header = expected_header(case)
    if len(paths) != len(expected):
        fails.append(Failure("archive-file-count-differs", case,
                             f"{len(paths)} archive files were left behind, {len(expected)} runs got an archive"))
    for k, p in enumerate(paths):
        with open(p, "r", newline="", encoding="utf-8") as f:
            rows = list(csv.reader(f, **fmt))
        if not rows or rows[0] != header:
            fails.append(Failure("archive-file-without-its-header", case,
                                 f"file {k}: first row {rows[:1]!r}, the header of these tags is {header!r}"))
            continue
        if k < len(expected):
            compare_rows(rows, expected[k], rows[0], FILE_KEYS, case, fails)
    if isinstance(shipped, Exception):
        fails.append(Failure("read_last_run_archive-raises", case, f"{type(shipped).__name__}: {shipped}"))
    elif shipped is None:
        if last is not None:
            fails.append(Failure("read_last_run_archive-finds-no-file", case, "the last run has an archive file"))
    elif last is None:
        fails.append(Failure("read_last_run_archive-returns-archive-of-a-run-without-one", case, repr(shipped[:80])))
    else:
        try:
            srows = list(csv.reader(io.StringIO(shipped, newline=""), **fmt))
        except csv.Error as e:
            fails.append(Failure("read_last_run_archive-unreadable", case, f"csv.Error: {e}"))
            return fails
        if not srows or srows[0] != header:
            fails.append(Failure("read_last_run_archive-header-differs", case, f"{srows[:1]!r} vs {header!r}"))
        else:
            compare_rows(srows, expected[last], srows[0], SHIPPED_KEYS, case, fails)
    return fails


def oracle_roundtrip(row) -> Failure | None:
    if row == [""]:
        return None   # cannot be written (csv.Error); the archiver never produces it: the time column is never empty
    f = io.StringIO(newline="")
    csv.writer(f, delimiter=",", quoting=csv.QUOTE_NONE, escapechar="\\").writerow(row)
    back = list(csv.reader(io.StringIO(f.getvalue(), newline=""), delimiter=",", quoting=csv.QUOTE_NONE,
                           escapechar="\\"))
    if back != [row]:
        return Failure("csv-roundtrip-differs", {"row": row}, f"wrote {row!r}, read {back!r}")
    return None


# ----------------------------------------------------------------------------------------------

def run(ctx: Check) -> int:
    ctx.prove(MODULE, REQUIRED)
    tmp = tempfile.mkdtemp(prefix="vp-c39-")
    try:
        return _run(ctx, tmp)
    finally:
        shutil.rmtree(tmp, ignore_errors=True)


def gen_retag_cases(ctx: Check):
    """Several runs on ONE archiver, each with its own tag collection (the archiver asks its tags_accessor at every
    start): the tags, their order, and where / whether the column-less archiver tag sits all change between runs."""
    rng = ctx.rng
    cases = []
    for _ in range(ctx.n(60, 800)):
        subs = []
        for _ in range(rng.choice([2, 2, 3])):
            tags = []
            for i in range(rng.randrange(0, 6)):
                nm = rng.choice(["T", "Flow,rate", 'Tag"q', "A\\B", "pH", "x;y", "Level [cm]"]) + str(i)
                tags.append(["p", nm, rng.choice(UNITS)])
            if rng.random() < 0.85:
                tags.insert(rng.randrange(0, len(tags) + 1), ["m", MARK_NAME, None])
            if rng.random() < 0.7:
                tags.insert(rng.randrange(0, len(tags) + 1), ["s", ARCHIVER_NAME, None])
            ops = _value_ops(rng, tags, rng.randrange(1, 4)) if rng.random() < 0.25 else []
            ops.append(["start"])
            for _ in range(rng.randrange(1, 6)):
                ops += _value_ops(rng, tags, rng.randrange(0, 4))
                ops.append(["row"])
            ops.append(["stop"])
            subs.append({"tags": tags, "ops": ops})
        cases.append({"retag": subs})
    return cases


def _tag_spec(tags) -> str:
    return "|".join(f"{k};{enc(n)};{'N' if u is None else enc(u)}" for k, n, u in tags) or "N"


def retag_lines(case):
    """Model side of a history with changed collections: `tags` for the first run, `retag` (the tag list replaced
    after on_stop — the state OPM.C39.changed_collection_run speaks about) before every later one."""
    out = []
    for k, sub in enumerate(case["retag"]):
        out.append(("tags\t" if k == 0 else "retag\t") + _tag_spec(sub["tags"]))
        clock = 0
        for op in sub["ops"]:
            if op[0] == "row":
                clock += 1
            out.append(op_line(op, clock))
    return out + ["files", "readall", "last"]


def run_retag_case(case, tmp):
    """Implementation side: ONE ArchiverTag, its tags_accessor returning another collection from run to run."""
    d = tempfile.mkdtemp(dir=tmp)
    subs = case["retag"]
    rig = Rig(subs[0], d)
    out = []
    for k, sub in enumerate(subs):
        if k:
            rig.retag(sub)
        out.append("ok")
        for op in sub["ops"]:
            rig.op(op)
            out.append("ok")
    try:
        shipped = rig.stop_and_read()
        last = "nofile" if shipped is None else enc(shipped)
    except Exception as e:
        last = f"err:{type(e).__name__}"
    paths = rig.files()
    texts = []
    for p in paths:
        with open(p, "r", newline="", encoding="utf-8") as f:
            texts.append(f.read())
    out.append(str(len(paths)) + "".join("\t" + enc(t) for t in texts))
    out.append(str(len(paths)) + "".join(" # " + py_read_file(p) for p in paths))
    out.append(last)
    return out


def oracle_retag(case, tmp) -> list[Failure]:
    """The property per file, for runs whose tag collections differ: the k-th file has the header of the k-th run's
    tags, every data row has that header's columns, and the values read back are the ones set on that run's tags."""
    d = tempfile.mkdtemp(dir=tmp)
    subs = case["retag"]
    rig = Rig(subs[0], d)
    for i, sub in enumerate(subs):
        if i:
            rig.retag(sub)
        for op in sub["ops"]:
            rig.op(op)
    paths = rig.files()
    fmt = dialect()
    fails: list[Failure] = []
    if len(paths) != len(subs):
        fails.append(Failure("archive-file-count-differs", case,
                             f"{len(paths)} archive files were left behind, {len(subs)} runs got an archive"))
    for k, (p, sub) in enumerate(zip(paths, subs)):
        with open(p, "r", newline="", encoding="utf-8") as f:
            rows = list(csv.reader(f, **fmt))
        header = expected_header(sub)
        if not rows or rows[0] != header:
            fails.append(Failure("archive-file-without-its-header", case,
                                 f"file {k}: first row {rows[:1]!r}, the header of this run's tags is {header!r}"))
            continue
        expected, _ = expected_files(sub)
        compare_rows(rows, expected[0], rows[0], FILE_KEYS, case, fails)
    return fails


def _run(ctx: Check, tmp: str) -> int:
    ctx.rule = ("writer: every row of <=2 fields of length <=2 over {, \\ \" CR LF a} (thorough: also <=3) plus random "
                "rows of unicode/special fields; reader: EVERY text up to length 4 (thorough 5) over the same alphabet "
                "plus random texts; archiver: random tag sets (0-5 plain tags with names/units containing separators, "
                "a Mark tag, the archiver itself as a column-less member) x random histories of set / simulate / mark / "
                "row / repeated start, on real files. Non-trivial = the text contains a character the dialect must "
                "escape (writer/reader) resp. a mark or value with such a character reached a row (archiver).")
    rows = gen_rows(ctx)
    w_out, w_model = ctx.correspond("csv-writer", "Archive", rows, lambda r: ["w\t" + enc_row(r)],
                                    lambda r: [py_write(r)],
                                    nontrivial=lambda r, o: any(c in f for f in r for c in ',\\"\r\n'))
    ctx.selftest("csv-writer", "Archive", rows, lambda r: ["wm\t" + enc_row(r)], w_model)
    texts = gen_texts(ctx)
    ctx.correspond("csv-reader", "Archive", texts, lambda t: ["r\t" + enc(t)], lambda t: [py_read_text(t, tmp)],
                   nontrivial=lambda t, o: any(c in t for c in ',\\"\r\n'))
    # written files read back (writer∘reader through the model and through CPython)
    files = []
    rng = ctx.rng
    for _ in range(ctx.n(300, 5000)):
        rs = [rng.choice(rows) for _ in range(rng.randrange(0, 5))]
        rs = [r for r in rs if r != [""]]
        files.append(rs)

    def file_text(rs):
        f = io.StringIO(newline="")
        w = csv.writer(f, delimiter=",", quoting=csv.QUOTE_NONE, escapechar="\\")
        w.writerows(rs)
        return f.getvalue()
    ctx.correspond("csv-written-file", "Archive", files, lambda rs: ["r\t" + enc(file_text(rs))],
                   lambda rs: [py_read_text(file_text(rs), tmp)], nontrivial=lambda rs, o: len(rs) > 1)
    for t in texts:
        ctx.count("reader:" + ("has-escape" if "\\" in t else "no-escape") + ("+newline" if "\r" in t or "\n" in t else ""))

    cases = load_corpus_cases(ctx) + gen_archiver_cases(ctx)
    a_out, _ = ctx.correspond("archiver", "Archive", cases, case_lines, lambda c: run_case(c, tmp)[0],
                              nontrivial=lambda c, o: any(op[0] in ("mark", "set") and isinstance(op[2], str)
                                                          and any(ch in op[2] for ch in ',\\";')
                                                          for op in c["ops"]))
    for c in cases:
        ctx.count("archiver:tags=%d" % len(c["tags"]))
        ctx.count("archiver:marks", sum(1 for op in c["ops"] if op[0] == "mark"))
        ctx.count("archiver:rows", sum(1 for op in c["ops"] if op[0] == "row"))
        if any(op[0] == "mark" for op in c["ops"][:next(i for i, o in enumerate(c["ops"]) if o[0] == "start")]):
            ctx.count("archiver:mark-before-header")

    # property oracle on the implementation, independent of the model
    ctx.monitor(rows, oracle_roundtrip)
    ctx.monitor(cases, lambda c: oracle_archive(c, tmp))
    retag = gen_retag_cases(ctx)
    ctx.correspond("archiver-changed-collection", "Archive", retag, retag_lines, lambda c: run_retag_case(c, tmp),
                   nontrivial=lambda c, o: any(a["tags"] != b["tags"] for a, b in zip(c["retag"], c["retag"][1:])))
    ctx.monitor(retag, lambda c: oracle_retag(c, tmp))
    ctx.count("archiver:runs-with-changed-collection", sum(len(c["retag"]) - 1 for c in retag))
    ctx.exhaustive = False
    ctx.extra["exhaustive_scopes"] = {"writer": "all rows of <=2 fields of length <=2 over 6 characters",
                                      "reader": f"all texts up to length {ctx.n(4, 5)} over 6 characters"}
    ctx.assumptions = [
        "the archive is read back with the dialect the archiver module declares, (a) from the file opened with "
        "newline='' and (b) from the text ArchiverTag.read_last_run_archive returns after on_stop (what "
        "create_run_stopped_msg ships); both must give the values that were set on the tags",
        "CPython csv writer/reader and text-file line splitting are modelled for this dialect and validated differentially",
        "tag classes are the ones in the tree: archive() is None for ArchiverTag only, and then always",
        "runs whose tag collection differs from the previous run's (other tags, other order, the archiver tag a member "
        "elsewhere or not at all; same ArchiverTag instance): correspondence stream archiver-changed-collection (model: "
        "tag list replaced after on_stop, OPM.C39.changed_collection_run) and the property oracle on the real files",
        "several runs per history (Stop = next file name); starts below the disk-space guard (os.statvfs and get_free_space_mb report "
        "2 MB) prepare no file: such a run has no archive and no rows, what was archived is judged per file left "
        "behind (each must start with the header of its tags); read_last_run_archive raising FileNotFoundError for a "
        "run without a file is tolerated (nothing to read back)",
        "oracle: expected cells come from the values SET on the tags (numbers compared numerically, texts exactly, "
        "marks joined by '; '), never from archive()'s return value; marks set before on_start belong to the "
        "header line (which evaluates the tags like a row) and are not expected in a data row",
        "floats: arbitrary doubles incl. rounding ties (k/64), tiny values and -0.0; the archived text of a float is its "
        "'%0.5f' rendering (documented format of Tag.archive), hence tolerance 5e-6 in the oracle; nan/inf not generated",
    ]
    return ctx.finish(search=lambda c: (c.monitor(gen_archiver_cases(c), lambda x: oracle_archive(x, tmp)),
                                        c.monitor(gen_retag_cases(c), lambda x: oracle_retag(x, tmp))))


def load_corpus_cases(ctx):
    from vp.core import load_corpus
    return [c for c in load_corpus("C39") if isinstance(c, dict) and "tags" in c]


def replay(obj) -> int:
    case = obj.get("case", {})
    tmp = tempfile.mkdtemp(prefix="vp-c39-")
    try:
        if "row" in case:
            f = oracle_roundtrip(case["row"])
            print(f.detail if f else "round trip ok")
            return 1 if f else 0
        if "retag" in case:
            fails = oracle_retag(case, tmp)
            for f in fails:
                print("FAIL", f.key, f.detail)
            return 1 if fails else 0
        if "tags" in case:
            out, paths, shipped = run_case(case, tmp)
            for p in paths:
                print("file", os.path.basename(p), repr(open(p, newline="", encoding="utf-8").read()))
            print("read_last_run_archive returned:", repr(shipped))
            fails = oracle_archive(case, tmp)
            for f in fails:
                print("FAIL", f.key, f.detail)
            return 1 if fails else 0
        print(obj)
        return 0
    finally:
        shutil.rmtree(tmp, ignore_errors=True)
