"""C12 Cancel and Force requests take effect exactly as offered.

Proof half: OPM.Properties.C12.  Command half over model M2 (OPM.Model.CmdMgr): cancel / force for unknown ids,
ended UOD commands and refusing nodes are rejected and change nothing; an accepted cancel of a running UOD
command finalizes it in the same call and the request leaves the manager; a finalized instance never executes
again (in every reachable state).  Interpreter half over model M3 (OPM.Model.Interp, step level): a cancelled
Watch leaves without running its body, a forced Watch activates, a forced Wait ends, a forced threshold is not
awaited; requests are accepted iff the node is cancellable/forcible.  The full statement fails (C12_counterexample):
a UOD item cancelled before its command started runs all the same — recorded finding.
Tie half: M2 correspondence with cancel/force on every id at every position; M3 is tied by props of C02–C05.
Oracle: run-log flags before the request, reply, state fingerprint, callbacks / node flags afterwards.
"""
from __future__ import annotations

from harness.cmd_props import FIX, engine_monitor, streams
from vp.core import Check

META = dict(
    level_text="Lean 4 theorems. Command manager model (all configurations, all histories): cancel/force requests for "
               "unknown ids, for UOD commands that have ended and for nodes that refuse are rejected and leave the state "
               "unchanged (force of an unknown id is answered with success but changes nothing); an accepted cancel of "
               "a running UOD command finalizes every instance of that command in the same call, removes the request "
               "and runs no exec callback; in every reachable state a finalized instance's callbacks end with its "
               "final; with the record invariant (repaired code incl. fixes/C10-dispose-instances-on-stop.diff) a "
               "cancel / force request for a UOD item that is NOT offered as cancellable / forcible is rejected and changes "
               "nothing, except for an item concluded without a command and with an untouched node (unoffered_cancel_rejected, "
               "unoffered_force_rejected; the exception is real: unoffered_counterexample). Interpreter model (every state, step level): a cancelled, not yet activated Watch leaves from "
               "its entry and from its waiting loop without bodyStart; a forced Watch/Alarm is activated whatever the "
               "condition; the waiting loop of a forced Wait completes in that step; a forced node is never awaiting "
               "its threshold and its wrapper starts it; cancel/force are accepted iff hasRecord and "
               "cancellable/forcible. The command model is tied to the real Engine by differential execution.",
    level_note="PARTIAL. C12_full (an accepted cancel => the command never executes afterwards) is false in the model and "
               "in the code: C12_counterexample / known finding 'cancelled-unstarted-uod-command-executes' (a UOD item is "
               "offered as cancellable as soon as its node is visited; cancelling it before the command manager started "
               "the command does not stop the command). C12_partial covers started commands. Model follows the code "
               "repaired by " + FIX + " (cancel/force of an ended UOD command is refused; the request is looked up by "
               "instance id). Further known findings on the node path (not repaired, interpreter/M3 territory): "
               "cancel/force of a *concluded* non-UOD item (completed Wait, Block, Alarm, Hold …) is accepted although "
               "not offered. Timed Pause/Hold 'ends at once' is checked by the engine-level oracle only (model M1 owns "
               "those commands; findings cancelled-unstarted-engine-command-executes and "
               "rejected-cancel-changed-state:engine-command). 'Requests for items that are not offered are rejected' is "
               "false as stated (unoffered_counterexample: the item of a request with rejected arguments is shown failed, "
               "not cancellable, yet cancel / force are accepted at the node site; the code does the same: known finding "
               "unoffered-*-accepted:node:concluded); it is proved with that one exception.",
    technique="Lean 4 proof (invariant-based for the command manager, step theorems for the interpreter) + differential "
              "correspondence + engine-level property oracle",
)
MODULE = "OPM.Properties.C12"
REQUIRED = ["OPM.C12.cancel_unknown_rejected", "OPM.C12.cancel_ended_rejected", "OPM.C12.force_ended_rejected",
            "OPM.C12.cancel_refused_rejected", "OPM.C12.force_refused_rejected", "OPM.C12.cancel_running_finalizes",
            "OPM.C12.finalized_never_executes_again", "OPM.C12.C12_partial", "OPM.C12.C12_counterexample",
            "OPM.C12.unoffered_cancel_rejected", "OPM.C12.unoffered_force_rejected", "OPM.C12.unoffered_counterexample",
            "OPM.C12.cancelled_watch_leaves", "OPM.C12.forced_watch_activates", "OPM.C12.forced_wait_ends",
            "OPM.C12.forced_threshold_not_awaited", "OPM.C12.interp_cancel_iff", "OPM.C12.interp_force_iff",
            # run-level lift of the interpreter half (C04 builder; proofs in lean/OPM/Lemmas/InterpC04Runs.lean)
            "OPM.C12.accepted_cancel_never_runs_until_reset"]


def engine_oracle(case, res):
    from harness.cmd_engine import oracle_c12
    return oracle_c12(case, res)


def run(ctx: Check) -> int:
    from harness.cmdmgr_streams import oracle_c12
    ctx.prove(MODULE, REQUIRED)
    ctx.rule = ("Op streams for the command manager (see C11) with the profile 'c12': cancel and force requests (36 % of "
                "the ops) on every request id — not started, running, completed, failed, cancelled, forced, unknown — at "
                "every position; all sequences of length <= 3/4 over a 10-op alphabet (incl. a request with rejected arguments) incl. cancel/force; malformed "
                "stream. Engine level: generated methods (UOD commands, Watch/Alarm, Wait, Block, timed Pause/Hold, "
                "Simulate, Mark, threshold lines) with 1-5 cancel/force requests against run-log items chosen by index "
                "(offered or not) or an unknown id at random ticks, force of the line waiting for its threshold; one case "
                "in five: a timed Hold and a timed Pause started from two Watch bodies (same tick or 1-2 ticks apart), "
                "cancel/force of either at a random tick, a user Pause/Hold now and then; one case in ten: a UOD line "
                "that runs several times (re-arming Alarm), cancel/force of the most recent invocation's item while it "
                "runs (an offered request for a running UOD command must be accepted: offered-*-rejected:uod-command).")
    streams(ctx, ["c12", "c12", "mixed"], ctx.n(500, 12000), ctx.n(3, 4), ctx.n(60, 1500), [oracle_c12], "cmdmgr")
    engine_monitor(ctx, "c12", ctx.n(600, 14000), engine_oracle)
    # ---- begin: interpreter half, threshold clause (added by the C04 builder; code in harness/c12_threshold.py) ----
    # Methods with threshold lines; a force request for the line the interpreter holds back for its threshold
    # (Engine.force_instruction with the record's instance id: such a line is not in the run log); an accepted
    # force must let the line start within 3 interpreter ticks.  Failure key: forced-threshold-still-waiting.
    from harness.c12_threshold import STATS as _thr_stats, oracle_forced_threshold, threshold_cases
    ctx.monitor(threshold_cases(ctx.rng, ctx.n(80, 2000)), oracle_forced_threshold, impl_timeout=60)
    for _k, _v in _thr_stats.items():
        ctx.count("threshold:" + _k, _v)
    # ---- end: interpreter half, threshold clause ----
    ctx.exhaustive = False
    ctx.extra["exhaustive_scope"] = f"all op sequences of length {ctx.n(3, 4)} over 10 ops (incl. cancel/force) after Start"
    ctx.extra["fix"] = FIX
    ctx.assumptions = ["UOD command requests come from the interpreter, one node per request", "command arguments parse",
                       "the interpreter model M3 is tied to pinterpreter.py by the correspondence of C02-C05"]
    return ctx.finish()


def replay(obj) -> int:
    if isinstance(obj.get("case"), dict) and obj["case"].get("kind") == "c12-threshold":   # (C04 builder's stream)
        from harness.c12_threshold import oracle_forced_threshold
        f = oracle_forced_threshold(obj["case"])
        print(obj["case"]["pcode"])
        print("oracle:", (f.key, f.detail) if f else "no failure")
        return 1 if f else 0
    from harness.cmd_props import replay_case
    return replay_case(obj, "C12")
