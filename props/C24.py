"""C24 No lost or stale hardware writes after an outage.

Proof half: OPM.Properties.C24 — for the repaired write-buffer code (fixes/C24-*.diff): every physical write
carries the value most recently commanded for its register (`no_stale_write`), every commanded value is in the
hardware or still buffered with exactly that value (`never_lost`, `buffered_is_newest`), and after a write cycle
whose hardware calls succeed the buffer is empty and every register holds its commanded value
(`recovered_cycle_holds`); the same for every single write / write_batch call whose hardware calls — counted, not
scripted — all succeeded, for ALL commanded registers (`successful_call_leaves_all_registers_current`).  `unrepaired_*` are the regression witnesses for the code as found.
Tie half: the real decorator against the model with the full view (last written values, pending writes in dict
order, fake hardware memory, physical writes of every op).
Oracle: per register the newest commanded value over the whole history; (A) every physical write must carry it,
(B) after every successful cycle / flush every commanded register must hold it — not only those of the call.
"""
from __future__ import annotations

import itertools

from vp.core import Check, Failure

META = dict(
    level_text="Lean 4 theorems over all histories of reads, writes, partial batch failures, flush failures, time-outs "
               "and reconnects: every physical write carries the newest commanded value of its register (no stale "
               "write), every commanded value is in the hardware or buffered unchanged (no lost write), and a "
               "successful write cycle leaves every register at its commanded value with an empty buffer. Proved "
               "for the repaired buffer code (two proposed fixes); the model is tied to hardware_recovery.py by "
               "differential execution including the full buffer state and the fake hardware's write log.",
    level_note="Trusted: Lean kernel (+ propext/Classical.choice/Quot.sound), the harness (scripted fake hardware, "
               "virtual clock). Batches name a register at most once (engine write cycle); float tolerance of "
               "filter_write_values (math.isclose, rel 1e-9) is abstracted to equality — generated floats are "
               "multiples of 1/8 below 2^20; 'commanded' = passed to a write call that returned without raising. "
               "On a tree without fixes/C24-*.diff the check reports the stale write / lost float as a violation.",
    technique="Lean 4 proof (three-part buffer invariant by induction over op lists, grind over list/assoc lemmas) + "
              "differential correspondence with exhaustive small scopes + write-log oracle",
)
MODULE = "OPM.Properties.C24"
REQUIRED = ["OPM.C24.no_stale_write", "OPM.C24.never_lost", "OPM.C24.buffered_is_newest",
            "OPM.C24.recovered_cycle_holds", "OPM.C24.successful_call_leaves_all_registers_current", "OPM.C24.unrepaired_writes_stale_value",
            "OPM.C24.unrepaired_filter_loses_float"]

T1, T2 = 80, 160
INIT = f"init\t1\t{T1}\t{T2}\t0,2\t0\t0\tfull"
DIRS = {0: "r", 1: "r", 2: "w", 3: "w", 4: "w", 5: "b", 6: "b", 7: "b"}


def _reg(i: int) -> str:
    return f"{i}{DIRS[i]}"


def _cycle(vb: int, vc: int, outcome: str, fl: str = "-") -> str:
    return f"writeb\t2w;3w\tn{8 * vb};n{8 * vc}\t{outcome}\t{fl}"


ALPHA = ([_cycle(vb, vc, o) for (vb, vc) in ((5, 1), (7, 1), (7, 2)) for o in ("ok", "0", "1")]
         + [_cycle(7, 1, "ok", "0"), "write\t3w\tn24\t1\t-", "write\t3w\tn24\t1\t0", "write\t2w\tn72\t0\t-",
            "write\t4w\tn8\t1\t0", "writeb\t3w;4w\tn8;n8\tok\t-",
            "read\t0r\tF", "read\t0r\tn8", "tick\t1", "tick\t0", f"adv\t{T1 + 1}", f"adv\t{T2 + 1}"])
PREFIXES = {
    "OK": [],
    "Issue+pending": [_cycle(5, 1, "0")],
    "Reconnect+pending": [_cycle(5, 1, "1"), f"adv\t{T1 + 1}", _cycle(5, 2, "0")],
    "Error+pending": [_cycle(5, 1, "0"), f"adv\t{T1 + 1}", "read\t0r\tF", f"adv\t{T2 + 1}", _cycle(9, 1, "ok")],
}


def gen_exhaustive(ctx: Check) -> list[list[str]]:
    cases = []
    depth = ctx.n(2, 3)
    for pre in PREFIXES.values():
        for k in range(0, depth + 1):
            for p in itertools.product(ALPHA, repeat=k):
                cases.append([INIT] + pre + list(p))
    # the quantifier's core: pure write-cycle histories over 2 registers x 3 value pairs x 4 outcomes (+ time-out, reconnect)
    core = [_cycle(vb, vc, o) for (vb, vc) in ((5, 1), (7, 1), (7, 2)) for o in ("ok", "0", "1")] + \
           [f"adv\t{T1 + 1}", "tick\t1"]
    for k in range(depth + 1, ctx.n(3, 5) + 1):
        for p in itertools.product(core, repeat=k):
            cases.append([INIT] + list(p))
    return cases


def _val(rng, kinds: str) -> str:
    k = rng.choice(kinds)
    if k == "N":
        return "N"
    if k == "s":
        return f"s{rng.choice([97, 98])}"
    if k == "f":
        return f"f{rng.randrange(-8, 40)}"
    return f"n{8 * rng.randrange(-1, 5)}"


def gen_random(ctx: Check, n: int, malformed: bool) -> list[list[str]]:
    rng = ctx.rng
    cases = []
    for _ in range(n):
        t1, t2 = rng.choice([8, 80]), rng.choice([16, 160])
        bk = rng.choice(["0,2", "1,3", "1", "2,5"])
        lines = [f"init\t{int(rng.random() < 0.6)}\t{t1}\t{t2}\t{bk}\t0\t0\tfull"]
        if lines[0].split("\t")[1] == "0" and rng.random() < 0.95:
            lines.append("connect\t1")
        kinds = rng.choice(["nnnn", "nnnf", "nnfNs", "nf"])
        outs = rng.sample([2, 3, 4, 5, 6], rng.randrange(1, 4))      # this case's output registers
        p_fail = rng.choice([0.15, 0.4, 0.7])
        cur = {r: _val(rng, kinds) for r in outs}
        for _ in range(rng.randrange(8, 40)):
            k = rng.random()
            ok = rng.random() >= p_fail
            fl = rng.choice(["-", "-", "-", "1", "0", "01", "00"])
            if k < 0.5:                                    # engine write cycle over all output registers
                for r in outs:
                    if rng.random() < 0.4:
                        cur[r] = _val(rng, kinds)
                rs = list(outs)
                vs = [cur[r] for r in rs]
                if malformed:
                    z = rng.random()
                    if z < 0.25:
                        rs.append(rng.choice(rs)); vs.append(_val(rng, kinds))      # duplicate register
                    elif z < 0.4:
                        vs = vs[:rng.randrange(0, len(vs) + 1)]                       # unequal lengths
                    elif z < 0.5:
                        rs.append(0); vs.append("n8")                                 # read-only register
                    elif z < 0.55:
                        rs, vs = [], []
                lines.append("writeb\t" + (";".join(map(_reg, rs)) or "-") + "\t" + (";".join(vs) or "-") + "\t"
                             + ("ok" if ok else str(rng.randrange(0, len(rs) + 1))) + "\t" + fl)
            elif k < 0.6:                                  # partial batch
                rs = rng.sample(outs, rng.randrange(1, len(outs) + 1))
                for r in rs:
                    cur[r] = _val(rng, kinds)
                lines.append("writeb\t" + ";".join(map(_reg, rs)) + "\t" + ";".join(cur[r] for r in rs) + "\t"
                             + ("ok" if ok else str(rng.randrange(0, len(rs) + 1))) + "\t" + fl)
            elif k < 0.7:                                  # single write (uod command style)
                r = rng.choice(outs)
                cur[r] = _val(rng, kinds)
                lines.append(f"write\t{_reg(r)}\t{cur[r]}\t{int(ok)}\t{fl}")
            elif k < 0.8:
                lines.append(f"read\t{_reg(rng.choice([0, 1, 5]))}\t{_val(rng, 'nnN') if ok else 'F'}")
            elif k < 0.9:
                for _ in range(rng.choice([1, 1, 2, 3])):
                    lines.append(f"tick\t{int(rng.random() < 0.6)}")
            else:
                lines.append(f"adv\t{rng.choice([1, t1, t1 + 1, t2 + 1])}")
        cases.append(lines)
    return cases


# ----------------------------------------------------------------------------------------------------------------
# property oracle over the fake hardware (independent of the model)

def _same(a, b) -> bool:
    """equality of register values as the decorator's own filter defines it (numbers: math.isclose)"""
    import math
    num = lambda x: isinstance(x, (int, float)) and not isinstance(x, bool)
    if num(a) and num(b):
        return math.isclose(a, b)
    return type(a) is type(b) and a == b


def oracle(lines: list[str]) -> list[Failure]:
    """Tracks, per register, the value most recently commanded over the whole history (`write` / `write_batch` calls
    that returned without raising) and judges the fake hardware against it:
    (A) no stale write: every value that physically reaches a register is the value most recently commanded for that
        register at that moment — an older buffered value is stale whatever was or was not written before;
    (B) no lost write: after every write cycle (`write_batch`, whichever registers it names) that reached the hardware
        and whose hardware calls all succeeded (main call and every flush write actually attempted — counted by the
        fake), and after every single write that flushed under the same condition, EVERY register that was ever
        commanded holds its most recently commanded value.
    Histories with a duplicate register inside one batch are outside the property (engine cycles name each once)."""
    from harness import hwrec
    for ln in lines:
        f = ln.split("\t")
        if f[0] == "writeb":
            ids = [x[:-1] for x in hwrec.lst(f[1])]
            if len(ids) != len(set(ids)):
                return []
    latest: dict[int, object] = {}        # register -> most recently commanded value (accepted calls only)
    history: dict[int, list] = {}         # register -> all commanded values, for the message only
    fails: list[Failure] = []
    seen_fault = [False]

    def bad(key, i, detail):
        if not any(f.key == key for f in fails):
            fails.append(Failure(key, {"lines": lines[:i + 1]}, f"op {i} `{lines[i]}`: {detail}"))

    def observe(i, line, impl):
        if i == 0:
            return
        f = line.split("\t")
        kind, last = f[0], impl.last
        raised = last["res"].startswith("raise:")
        batch: list[tuple[int, object]] = []
        if kind == "write" and not raised:
            batch = [(int(f[1][:-1]), hwrec.tok_to_py(f[2]))]
        elif kind == "writeb" and not raised:
            batch = [(int(r[:-1]), hwrec.tok_to_py(v)) for v, r in zip(hwrec.lst(f[2]), hwrec.lst(f[1]))]
        for r, v in batch:
            latest[r] = v
            history.setdefault(r, []).append(v)
        # (A) the write log of this op
        for r, v in last["writes"]:
            if r not in latest:
                bad("hardware-received-value-never-commanded", i, f"register {r} received {v!r}, nothing was commanded for it")
            elif not _same(v, latest[r]):
                known = any(_same(v, c) for c in history[r])
                bad("stale-value-written-after-newer-command" if known else "hardware-received-value-never-commanded", i,
                    f"register {r} received {v!r} although the most recently commanded value is {latest[r]!r} "
                    f"(commanded so far: {history[r]!r})")
        # (B) a write call that reached the hardware and whose hardware calls all succeeded
        flushed = len(last["writes"]) > (1 if kind == "write" else 0)
        if not raised and last["contact"] is True and not last["flush_fail"] \
                and (kind == "writeb" or (kind == "write" and flushed)):
            for r in sorted(latest):
                want = latest[r]
                have = last["mem"].get(f"R{r}", "<never written>")
                if not _same(have, want):
                    why = ("float-over-nonnumeric-filtered" if isinstance(want, float) and not isinstance(have, (int, float))
                           else "after-fault" if seen_fault[0] else "no-fault")
                    named = "" if r in {x for x, _ in batch} else "-register-outside-the-call"
                    bad(f"register-not-holding-commanded-value-after-successful-write:{why}{named}", i,
                        f"register {r} holds {have!r}, most recently commanded {want!r}")
        if last["contact"] is False or last["reconn"] is False or last["flush_fail"]:
            seen_fault[0] = True

    hwrec.run_impl(lines, observe)
    return fails


def run(ctx: Check) -> int:
    from harness import hwrec
    from vp.core import load_corpus
    ctx.prove(MODULE, REQUIRED)
    corpus = [c["lines"] for c in load_corpus("C24")]
    ex = gen_exhaustive(ctx)
    rnd = gen_random(ctx, ctx.n(400, 8000), malformed=False)
    mal = gen_random(ctx, ctx.n(150, 3000), malformed=True)
    ctx.rule = ("op lines for the decorator with a scripted fake hardware (write memory + write log) and a virtual clock. "
                f"exhaustive: every sequence of length <= {ctx.n(2, 3)} over 22 ops (write cycles over 2 registers with 3 "
                "value pairs x {ok, fail before any write, fail after one write}, cycle with a failing flush, single writes "
                "with ok/failing flush, failing single write, read ok/fail, tick reconnect ok/fail, advance past t1/t2) "
                "from 4 start states (OK, Issue/Reconnect/Error each with buffered values), plus every pure write-cycle "
                f"history up to length {ctx.n(3, 5)} over 11 ops. random: 8-40 ops over 1-3 output registers with int / "
                "float / None / str values, unchanged and changed values, partial batches, partial batch failures, "
                "flush failures, single writes, reads, ticks, advances. malformed: duplicate registers in a batch, "
                "unequal lengths, read-only registers, empty batches. Non-trivial = some value was buffered (pending "
                "non-empty at some point).")

    def nontrivial(c, out):
        return any("\tpend=" in ln and "\tpend=-" not in ln for ln in out)

    for name, cases in (("corpus", corpus), ("exhaustive", ex), ("random", rnd), ("malformed", mal)):
        if not cases:
            continue
        out, mout = ctx.correspond(name, "HwRecovery", cases, lambda c: c, hwrec.run_impl, nontrivial=nontrivial)
        if name == "exhaustive" and mout:
            # self-test: the model variant of the unrepaired buffer code must be told apart by these cases
            def mutant(c):
                f = c[0].split("\t")
                f[5] = "1"
                return ["\t".join(f)] + c[1:]
            step = max(1, len(cases) // 4000)
            ctx.selftest(name, "HwRecovery", cases[::step], mutant, mout[::step])
        for c, o in zip(cases, out):
            ctx.count("cases_with_buffered_value" if nontrivial(c, o) else "cases_without_buffering")
            ctx.count("flushes_observed", sum(1 for a, b in zip(o, o[1:]) if "\tpend=-" not in a and "\tpend=-" in b))
            ctx.count("ops:writeb", sum(1 for ln in c if ln.startswith("writeb")))
            ctx.count("ops:float_values", sum(ln.count("\tf") + ln.count(";f") for ln in c if ln.startswith("write")))
    orc = corpus + rnd + mal + ex
    ctx.monitor(orc, lambda c: oracle(c) or None)
    ctx.extra["oracle_cases"] = len(orc)
    ctx.exhaustive = True
    ctx.extra["exhaustive_scope"] = "all op sequences up to the stated lengths; random/malformed streams are sampled"
    ctx.assumptions = ["a batch names a register at most once for the property (the model/correspondence also covers duplicates)",
                       "math.isclose in filter_write_values abstracted to equality (generated floats: multiples of 1/8, |v| < 2^20)",
                       "'commanded' = value passed to write/write_batch that returned without raising",
                       "time.time() inside hardware_recovery is a virtual clock; fake hardware raises only HardwareLayerException",
                       "one Register object per register name; only_write_modified_values = True (production default)",
                       "the model follows the repaired code: fixes/C24-drop-superseded-pending-write.diff and "
                       "fixes/C24-write-float-over-nonnumeric.diff"]

    def search(c: Check):
        more = gen_random(c, 3000, malformed=False)
        c.monitor(more, lambda x: oracle(x) or None)

    return ctx.finish(search=search)


def replay(obj) -> int:
    from harness import hwrec
    from vp import core
    case = obj.get("case") or {}
    lines = case.get("lines") if isinstance(case, dict) else case
    if not lines:
        for d in obj.get("disagreements", []):
            lines = d["case"]
            break
    if not lines:
        print(obj)
        return 0
    out = hwrec.run_impl(lines)
    mout = core.drive("HwRecovery", [lines])[0]
    for ln, a, b in zip(lines, out, mout):
        print(("   " if a == b else "!! ") + ln.replace("\t", " "))
        print("     impl : " + a.replace("\t", " | "))
        if a != b:
            print("     model: " + b.replace("\t", " | "))
    fails = oracle(lines)
    for f in fails:
        print(f"ORACLE {f.key}: {f.detail}")
    return 1 if fails else 0
