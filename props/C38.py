"""C38 Distinct engines never share an engine id.

Proof half: OPM.Properties.C38 (injectivity of the id on all string pairs; no take-over).
Tie half: correspondence of `Aggregator.create_engine_id` and of the registration guard of
`handle_RegisterEngineMsg` with the model on generated names (exhaustive over a small alphabet
that contains the separator and URL-special characters, plus random unicode).
"""
from __future__ import annotations

import asyncio
import itertools
from unittest.mock import Mock

from vp.core import Check, Failure, enc, encb

META = dict(
    level_text="Lean 4 theorems: the engine id is injective on all (computer name, UOD name) string pairs "
               "(percent-encoding is a prefix code; the first '_' is the separator) and a registration is never "
               "accepted for an id that is connected. The model is tied to create_engine_id / "
               "handle_RegisterEngineMsg by differential execution on exhaustive small-alphabet and random unicode names.",
    level_note="Trusted: Lean kernel (+ propext/Classical.choice/Quot.sound), the correspondence harness, the model of "
               "urllib.parse.quote (validated differentially). Names are valid unicode strings.",
    technique="Lean 4 proof (injectivity by decoder/left-inverse + separator split) + differential correspondence",
)
MODULE = "OPM.Properties.C38"
REQUIRED = ["OPM.C38.engineId_injective", "OPM.C38.distinct_pairs_distinct_ids", "OPM.C38.no_takeover",
            "OPM.C38.accepted_distinct"]
ALPHABET = ["a", "_", "%", "/", " ", "é", "5", "F", "~", "€"]


def _aggregator():
    from openpectus.aggregator.aggregator import Aggregator
    from openpectus.protocol.aggregator_dispatcher import AggregatorDispatcher
    return Aggregator(AggregatorDispatcher(), Mock(), Mock(), secret="s")


def _msg(computer: str, uod: str, secret="s", version=None, ignore=False):
    import openpectus.protocol.engine_messages as EM
    from openpectus import __version__
    return EM.RegisterEngineMsg(computer_name=computer, uod_name=uod, uod_author_name="", uod_author_email="",
                                uod_filename="", location="", engine_version=version or __version__,
                                secret=secret, ignore_version_error=ignore)


def gen_pairs(ctx: Check) -> list[list[str]]:
    maxlen = ctx.n(2, 3)
    words = [""]
    for k in range(1, maxlen + 1):
        words += ["".join(t) for t in itertools.product(ALPHABET[:ctx.n(6, 8)], repeat=k)]
    pairs = [[c, u] for c in words for u in words] if len(words) ** 2 <= 4000 else []
    rng = ctx.rng
    if not pairs:
        pairs = [[rng.choice(words), rng.choice(words)] for _ in range(ctx.n(3000, 60000))]
    for _ in range(ctx.n(300, 5000)):
        def w():
            return "".join(rng.choice(ALPHABET + [chr(rng.randrange(32, 0x2FFF))]) for _ in range(rng.randrange(0, 8)))
        pairs.append([w(), w()])
    return pairs


def run(ctx: Check) -> int:
    ctx.prove(MODULE, REQUIRED)
    agg = _aggregator()
    pairs = gen_pairs(ctx)
    ctx.rule = ("(computer, uod) name pairs: all words up to length 2/3 over an alphabet with the separator '_', "
                "'%', '/', space, non-ASCII, hex digits; plus random unicode words. Non-trivial = at least one "
                "name contains '_', '%' or a non-ASCII character. Registration stream: message × connected set.")

    def impl_id(p):
        return [enc(agg.create_engine_id(_msg(p[0], p[1])))]

    out, mout = ctx.correspond("engine-id", "EngineId", pairs, lambda p: [f"id\t{enc(p[0])}\t{enc(p[1])}"], impl_id,
                         nontrivial=lambda p, o: any(ch in (p[0] + p[1]) for ch in "_%") or not (p[0] + p[1]).isascii())
    ctx.selftest("engine-id", "EngineId", pairs, lambda p: [f"idold\t{enc(p[0])}\t{enc(p[1])}"], mout)
    for p in pairs:
        ctx.count("has_sep" if "_" in p[0] + p[1] else "no_sep")

    # registration guard
    from openpectus.aggregator.aggregator_message_handlers import AggregatorMessageHandlers
    regs = []
    rng = ctx.rng
    for _ in range(ctx.n(300, 5000)):
        c, u = rng.choice(pairs)
        others = [rng.choice(pairs) for _ in range(rng.randrange(0, 3))]
        connected = [agg.create_engine_id(_msg(*o)) for o in others]
        if rng.random() < 0.4:
            connected.append(agg.create_engine_id(_msg(c, u)))
        regs.append({"c": c, "u": u, "secret": rng.random() < 0.9, "version": rng.random() < 0.7,
                     "ignore": rng.random() < 0.5, "connected": sorted(set(connected))})

    def impl_reg(r):
        a = _aggregator()
        a.dispatcher.has_connected_engine_id = lambda eid: eid in r["connected"]  # the websocket table
        a.from_engine.register_engine_data = Mock()
        h = AggregatorMessageHandlers(a)
        m = _msg(r["c"], r["u"], "s" if r["secret"] else "wrong", None if r["version"] else "0.0.0-other", r["ignore"])
        rep = asyncio.run(h.handle_RegisterEngineMsg(m))
        if not rep.secret_match:
            return ["secret"]
        if not rep.success:
            return ["refused\t" + enc(rep.engine_id or "")]
        return ["ok\t" + enc(rep.engine_id or "")]

    def reg_line(r):
        conn = ";".join(enc(x) for x in r["connected"])
        return [f"reg\t{encb(r['secret'])}\t{encb(r['version'])}\t{encb(r['ignore'])}\t{enc(r['c'])}\t{enc(r['u'])}\t{conn}"]

    ctx.correspond("register", "EngineId", regs, reg_line, impl_reg,
                   nontrivial=lambda r, o: bool(r["connected"]))

    # property oracle on the implementation, independent of the model: collisions among generated pairs
    seen: dict[str, list[str]] = {}
    for p, o in zip(pairs, out):
        q = seen.setdefault(o[0], p)
        if q != p:
            ctx.fail(Failure("engine-id-collision", {"pair1": q, "pair2": p},
                             f"{q!r} and {p!r} both get engine id {agg.create_engine_id(_msg(*p))!r}"))
            break
    for r in regs:
        o = impl_reg(r)
        if o[0].startswith("ok") and agg.create_engine_id(_msg(r["c"], r["u"])) in r["connected"]:
            ctx.fail(Failure("takeover-of-connected-id", r, "registration accepted for an id that is connected"))
    ctx.exhaustive = False
    ctx.assumptions = ["urllib.parse.quote is modelled (percent-encoding of UTF-8 bytes, safe set A-Za-z0-9_.-~) and "
                       "validated differentially", "names are valid unicode strings (no lone surrogates)"]
    def search(c: Check) -> None:
        # exhaustive search for a collision over words built from the separator, '%' and the characters of its
        # escape: the places where an encoding change can go wrong
        sigma = ["_", "%", "5", "F", "2", "a"]
        words = [""]
        for k in range(1, 4):
            words += ["".join(t) for t in itertools.product(sigma, repeat=k)]
        seen2: dict[str, list[str]] = {}
        for cn in words:
            for un in words[:43]:
                i = agg.create_engine_id(_msg(cn, un))
                q = seen2.setdefault(i, [cn, un])
                if q != [cn, un]:
                    c.fail(Failure("engine-id-collision", {"pair1": q, "pair2": [cn, un]},
                                   f"{q!r} and {[cn, un]!r} both get engine id {i!r}"))
                    return

    return ctx.finish(search=search)


def replay(obj) -> int:
    agg = _aggregator()
    c = obj.get("case", {})
    if "pair1" in c:
        a, b = c["pair1"], c["pair2"]
        ia, ib = agg.create_engine_id(_msg(*a)), agg.create_engine_id(_msg(*b))
        print(f"{a!r} -> {ia!r}\n{b!r} -> {ib!r}\ncollision: {ia == ib}")
        return 1 if ia == ib else 0
    print(obj)
    return 0
