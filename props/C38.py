"""C38 Distinct engines never share an engine id.

Proof half: OPM.Properties.C38 (injectivity of the id on all string pairs; no take-over).
Tie half: correspondence of `Aggregator.create_engine_id` and of the registration guard of
`handle_RegisterEngineMsg` with the model on generated names (exhaustive over a small alphabet
that contains the separator and URL-special characters, plus random unicode).
"""
from __future__ import annotations

import asyncio
import itertools
from unittest.mock import Mock

from vp.core import Check, Failure, enc, encb

META = dict(
    level_text="Lean 4 theorems: the engine id is injective on all (computer name, UOD name) string pairs "
               "(percent-encoding is a prefix code; the first '_' is the separator) and a registration is never "
               "accepted for an id that is connected. The model is tied to create_engine_id / "
               "handle_RegisterEngineMsg by differential execution on exhaustive small-alphabet and random unicode names.",
    level_note="Trusted: Lean kernel (+ propext/Classical.choice/Quot.sound), the correspondence harness, the model of "
               "urllib.parse.quote (validated differentially). Names are valid unicode strings.",
    technique="Lean 4 proof (injectivity by decoder/left-inverse + separator split) + differential correspondence",
)
MODULE = "OPM.Properties.C38"
REQUIRED = ["OPM.C38.engineId_injective", "OPM.C38.distinct_pairs_distinct_ids", "OPM.C38.no_takeover",
            "OPM.C38.accepted_distinct", "OPM.C38.no_takeover_history", "OPM.C38.owned_id_refused",
            "OPM.C38.registrations_refused_while_connected", "OPM.C38.keysNodup_run"]
ALPHABET = ["a", "_", "%", "/", " ", "é", "5", "F", "~", "€"]


def _aggregator():
    from openpectus.aggregator.aggregator import Aggregator
    from openpectus.protocol.aggregator_dispatcher import AggregatorDispatcher
    return Aggregator(AggregatorDispatcher(), Mock(), Mock(), secret="s")


def _msg(computer: str, uod: str, secret="s", version=None, ignore=False):
    import openpectus.protocol.engine_messages as EM
    from openpectus import __version__
    return EM.RegisterEngineMsg(computer_name=computer, uod_name=uod, uod_author_name="", uod_author_email="",
                                uod_filename="", location="", engine_version=version or __version__,
                                secret=secret, ignore_version_error=ignore)


def gen_pairs(ctx: Check) -> list[list[str]]:
    maxlen = ctx.n(2, 3)
    words = [""]
    for k in range(1, maxlen + 1):
        words += ["".join(t) for t in itertools.product(ALPHABET[:ctx.n(6, 8)], repeat=k)]
    pairs = [[c, u] for c in words for u in words] if len(words) ** 2 <= 4000 else []
    rng = ctx.rng
    if not pairs:
        pairs = [[rng.choice(words), rng.choice(words)] for _ in range(ctx.n(3000, 60000))]
    for _ in range(ctx.n(300, 5000)):
        def w():
            return "".join(rng.choice(ALPHABET + [chr(rng.randrange(32, 0x2FFF))]) for _ in range(rng.randrange(0, 8)))
        pairs.append([w(), w()])
    # case variants and long names that differ only in their tail (an id that folds case or truncates collides here)
    for a, b in (("A", "a"), ("Ab", "aB"), ("É", "é")):
        pairs += [[a, "u"], [b, "u"], ["c", a], ["c", b]]
    for k in (20, 40, 64, 100, 128, 200, 255, 300):
        pairs += [["x" * k + "a", "u"], ["x" * k + "b", "u"], ["c", "y" * k + "a"], ["c", "y" * k + "b"]]
    return pairs


class _Channel:
    """Stand-in for fastapi_websocket_rpc.RpcChannel: reports an engine id over rpc, records close()."""
    def __init__(self, n: int, engine_id: str | None):
        from fastapi_websocket_rpc.schemas import RpcResponse
        self.n, self.closed = n, False
        outer = self

        class Other:
            async def get_engine_id_async(self):
                return RpcResponse(result=engine_id, result_type=None)
        self.other = Other()
        self.default_response_timeout = None

    async def close(self):
        self.closed = True


def gen_histories(ctx: Check, pairs) -> list[dict]:
    rng = ctx.rng
    out = []
    # engines: a few name pairs, among them the pairs that collided before the id fix
    pool = [["a_b", "c"], ["a", "b_c"], ["x", "y"], ["x%", "y"], ["", "_"]]
    for _ in range(ctx.n(400, 6000)):
        engines = [rng.choice(pool) if rng.random() < 0.7 else rng.choice(pairs) for _ in range(rng.randrange(1, 4))]
        ops, nch = [], 0
        for _ in range(rng.randrange(2, 12)):
            r = rng.random()
            if r < 0.35:
                e = rng.choice(engines)
                ops.append(["regs", rng.random() < 0.9, rng.random() < 0.8, rng.random() < 0.5, e[0], e[1]])
            elif r < 0.75:
                nch += 1
                e = rng.choice(engines)
                ops.append(["conn", nch, None if rng.random() < 0.05 else e])
            elif nch:
                ops.append(["disc", rng.randrange(1, nch + 2)])
        out.append({"ops": ops})
    return out


def hist_lines(h) -> list[str]:
    agg = _aggregator()
    lines = []
    for op in h["ops"]:
        if op[0] == "regs":
            lines.append(f"regs\t{encb(op[1])}\t{encb(op[2])}\t{encb(op[3])}\t{enc(op[4])}\t{enc(op[5])}")
        elif op[0] == "conn":
            # the id a websocket reports is the one its registration was given (create_engine_id itself is tied
            # by the engine-id stream)
            i = "N" if op[2] is None else enc(agg.create_engine_id(_msg(op[2][0], op[2][1])))
            lines.append(f"conn\t{op[1]}\t{i}")
        else:
            lines.append(f"disc\t{op[1]}")
    return lines


def run_history(h) -> list[str]:
    from openpectus.aggregator.aggregator_message_handlers import AggregatorMessageHandlers
    a = _aggregator()
    a.from_engine.register_engine_data = Mock()
    a.from_engine.engine_connected = Mock()
    a.from_engine.engine_disconnected = Mock()
    hd = AggregatorMessageHandlers(a)
    d = a.dispatcher
    chans: dict[int, _Channel] = {}
    outs = []
    loop = asyncio.new_event_loop()
    try:
        for op in h["ops"]:
            if op[0] == "regs":
                m = _msg(op[4], op[5], "s" if op[1] else "wrong", None if op[2] else "0.0.0-other", op[3])
                rep = loop.run_until_complete(hd.handle_RegisterEngineMsg(m))
                o = "secret" if not rep.secret_match else \
                    ("ok\t" if rep.success else "refused\t") + enc(rep.engine_id or "")
            elif op[0] == "conn":
                i = None if op[2] is None else a.create_engine_id(_msg(op[2][0], op[2][1]))
                ch = chans[op[1]] = _Channel(op[1], i)
                loop.run_until_complete(d._on_delayed_client_connect(ch))   # type: ignore
                o = "closed" if ch.closed else "connected\t" + enc(i or "")
            else:
                ch = chans.get(op[1]) or _Channel(op[1], None)
                before = dict(d._engine_id_channel_map)
                loop.run_until_complete(d.on_client_disconnect(ch))   # type: ignore
                gone = [k for k in before if k not in d._engine_id_channel_map]
                o = "disconnected\t" + enc(gone[0]) if gone else "unknown"
            table = ";".join(f"{enc(k)}:{v.n}" for k, v in d._engine_id_channel_map.items())
            outs.append(o + "|" + table)
    finally:
        loop.close()
    return outs


def history_oracle(h, outs) -> Failure | None:
    """C38, second clause, over the implementation's own answers: while an id is connected through a
    channel, it stays with that channel until that channel disconnects, and no registration for it succeeds."""
    agg = _aggregator()
    owner: dict[str, int] = {}       # the oracle's own ledger: id -> channel that connected first and is still up
    for op, o in zip(h["ops"], outs):
        head, _, table = o.partition("|")
        tab = dict((x.split(":")[0], int(x.split(":")[1])) for x in table.split(";") if x)
        if op[0] == "regs":
            i = enc(agg.create_engine_id(_msg(op[4], op[5])))
            if i in owner and head.startswith("ok"):
                return Failure("takeover-of-connected-id", h, f"registration for connected id accepted at op {op}")
        elif op[0] == "conn" and op[2] is not None:
            i = enc(agg.create_engine_id(_msg(op[2][0], op[2][1])))
            if i not in owner:
                if head.startswith("connected"):
                    owner[i] = op[1]
            elif head.startswith("connected"):
                return Failure("takeover-of-connected-id:second-websocket", h,
                               f"a second websocket became the owner of a connected id at op {op}")
        elif op[0] == "disc":
            for k in [k for k, v in owner.items() if v == op[1]]:
                del owner[k]
        for k, v in owner.items():
            if tab.get(k) != v:
                return Failure("takeover-of-connected-id:owner-changed", h,
                               f"id {k} was connected through channel {v}, table now says {tab.get(k)} after op {op}")
    return None


def run(ctx: Check) -> int:
    ctx.prove(MODULE, REQUIRED)
    agg = _aggregator()
    pairs = gen_pairs(ctx)
    ctx.rule = ("(computer, uod) name pairs: all words up to length 2/3 over an alphabet with the separator '_', "
                "'%', '/', space, non-ASCII, hex digits; plus random unicode words. Non-trivial = at least one "
                "name contains '_', '%' or a non-ASCII character. Registration stream: message × connected set.")

    def impl_id(p):
        return [enc(agg.create_engine_id(_msg(p[0], p[1])))]

    out, mout = ctx.correspond("engine-id", "EngineId", pairs, lambda p: [f"id\t{enc(p[0])}\t{enc(p[1])}"], impl_id,
                         nontrivial=lambda p, o: any(ch in (p[0] + p[1]) for ch in "_%") or not (p[0] + p[1]).isascii())
    ctx.selftest("engine-id", "EngineId", pairs, lambda p: [f"idold\t{enc(p[0])}\t{enc(p[1])}"], mout)
    for p in pairs:
        ctx.count("has_sep" if "_" in p[0] + p[1] else "no_sep")

    # registration guard
    from openpectus.aggregator.aggregator_message_handlers import AggregatorMessageHandlers
    regs = []
    rng = ctx.rng
    for _ in range(ctx.n(300, 5000)):
        c, u = rng.choice(pairs)
        others = [rng.choice(pairs) for _ in range(rng.randrange(0, 3))]
        connected = [agg.create_engine_id(_msg(*o)) for o in others]
        if rng.random() < 0.4:
            connected.append(agg.create_engine_id(_msg(c, u)))
        regs.append({"c": c, "u": u, "secret": rng.random() < 0.9, "version": rng.random() < 0.7,
                     "ignore": rng.random() < 0.5, "connected": sorted(set(connected))})

    def impl_reg(r):
        a = _aggregator()
        a.dispatcher.has_connected_engine_id = lambda eid: eid in r["connected"]  # the websocket table
        a.from_engine.register_engine_data = Mock()
        h = AggregatorMessageHandlers(a)
        m = _msg(r["c"], r["u"], "s" if r["secret"] else "wrong", None if r["version"] else "0.0.0-other", r["ignore"])
        rep = asyncio.run(h.handle_RegisterEngineMsg(m))
        if not rep.secret_match:
            return ["secret"]
        if not rep.success:
            return ["refused\t" + enc(rep.engine_id or "")]
        return ["ok\t" + enc(rep.engine_id or "")]

    def reg_line(r):
        conn = ";".join(enc(x) for x in r["connected"])
        return [f"reg\t{encb(r['secret'])}\t{encb(r['version'])}\t{encb(r['ignore'])}\t{enc(r['c'])}\t{enc(r['u'])}\t{conn}"]

    ctx.correspond("register", "EngineId", regs, reg_line, impl_reg,
                   nontrivial=lambda r, o: bool(r["connected"]))

    # websocket-table histories: registrations, connects (a websocket reporting an id) and disconnects through
    # the real AggregatorDispatcher + AggregatorMessageHandlers
    hists = gen_histories(ctx, pairs)
    hout, _ = ctx.correspond("ws-history", "EngineId", hists, hist_lines, run_history,
                             nontrivial=lambda h, o: any(x.startswith("refused") or x.startswith("closed") for x in o))
    for h, o in zip(hists, hout):
        f = history_oracle(h, o)
        if f is not None:
            ctx.fail(f)
        for op in h["ops"]:
            ctx.count("hist-op:" + op[0])

    # property oracle on the implementation, independent of the model: collisions among generated pairs
    seen: dict[str, list[str]] = {}
    for p, o in zip(pairs, out):
        q = seen.setdefault(o[0], p)
        if q != p:
            ctx.fail(Failure("engine-id-collision", {"pair1": q, "pair2": p},
                             f"{q!r} and {p!r} both get engine id {agg.create_engine_id(_msg(*p))!r}"))
            break
    for r in regs:
        o = impl_reg(r)
        if o[0].startswith("ok") and agg.create_engine_id(_msg(r["c"], r["u"])) in r["connected"]:
            ctx.fail(Failure("takeover-of-connected-id", r, "registration accepted for an id that is connected"))
    ctx.exhaustive = False
    ctx.assumptions = ["urllib.parse.quote is modelled (percent-encoding of UTF-8 bytes, safe set A-Za-z0-9_.-~) and "
                       "validated differentially", "names are valid unicode strings (no lone surrogates)"]
    def search(c: Check) -> None:
        # exhaustive search for a collision over words built from the separator, '%' and the characters of its
        # escape: the places where an encoding change can go wrong
        sigma = ["_", "%", "5", "F", "2", "a"]
        words = [""]
        for k in range(1, 4):
            words += ["".join(t) for t in itertools.product(sigma, repeat=k)]
        seen2: dict[str, list[str]] = {}
        for cn in words:
            for un in words[:43]:
                i = agg.create_engine_id(_msg(cn, un))
                q = seen2.setdefault(i, [cn, un])
                if q != [cn, un]:
                    c.fail(Failure("engine-id-collision", {"pair1": q, "pair2": [cn, un]},
                                   f"{q!r} and {[cn, un]!r} both get engine id {i!r}"))
                    return

    return ctx.finish(search=search)


def replay(obj) -> int:
    agg = _aggregator()
    c = obj.get("case", {})
    if "pair1" in c:
        a, b = c["pair1"], c["pair2"]
        ia, ib = agg.create_engine_id(_msg(*a)), agg.create_engine_id(_msg(*b))
        print(f"{a!r} -> {ia!r}\n{b!r} -> {ib!r}\ncollision: {ia == ib}")
        return 1 if ia == ib else 0
    print(obj)
    return 0
