"""Prints the markdown table of confirmed seeded changes (seeded/*/meta.json) for DESIGN.md §12.5."""
from __future__ import annotations

import json
from pathlib import Path

ROOT = Path(__file__).resolve().parent.parent


def main() -> None:
    print("| seeded change | what it does (site) | result of the property's check |")
    print("|---|---|---|")
    for d in sorted((ROOT / "seeded").iterdir()):
        mp = d / "meta.json"
        if not mp.exists():
            continue
        m = json.loads(mp.read_text())
        w = m.get("what_i_ran", {})
        c = w.get("checks", {}).get(m.get("breaks"), {})
        if w.get("caught"):
            kind = c.get("replay_kind")
            res = (f"failing input (`{c.get('replay_key')}`)" if kind == "failing-input"
                   else "theorem / correspondence breaks, no failing input found")
        else:
            res = "**not caught**"
        if m.get("note"):
            res += " — " + m["note"][:160]
        others = {k: v for k, v in w.get("checks", {}).items() if k != m.get("breaks") and v.get("rc") == 1}
        for k, v in others.items():
            res += f"; {k}: " + ("failing input" if v.get("replay_kind") == "failing-input" else "correspondence")
        summ = " ".join((m.get("summary") or "").split())[:150]
        print(f"| {d.name} | {summ} | {res} |")


if __name__ == "__main__":
    main()
