#!/bin/sh
# thorough sweep: sh vp/sweep.sh C01 C02 ...   (run from /verif or a snapshot of it)
/venv/bin/python -m vp.setup > /dev/null 2>&1
for p in "$@"; do
  VERIF_TIER=thorough /venv/bin/python -m vp.check $p 2>&1 | grep -E "^\[C|^VIOLATION|^KNOWN|^INFRA" | cut -c1-220
done
