#!/bin/sh
# thorough sweep: sh vp/sweep.sh C01 C02 ...   (run from /verif or a snapshot of it); 4 checks at a time
/venv/bin/python -m vp.setup > /dev/null 2>&1
printf "%s\n" "$@" | xargs -P 4 -I{} sh -c 'VERIF_TIER=thorough /venv/bin/python -m vp.check {} 2>&1 | grep -E "^\[C|^VIOLATION|^INFRA" | cut -c1-220'
