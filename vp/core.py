"""Shared machinery of every check: Lean build + axiom audit (proof half), driver pipe and
diff (tie half), decision rule, known findings, replay files, evidence writer.

Runs under /venv/bin/python (the repo is installed there in editable mode, so `import
openpectus` always sees /repo's current working tree).  Standard library only.
"""
from __future__ import annotations

import fcntl
import hashlib
import json
import os
import random
import re
import signal
import subprocess
import sys
import time
from dataclasses import dataclass, field
from pathlib import Path
from typing import Any, Callable, Iterable, Sequence

ROOT = Path(__file__).resolve().parent.parent
LEAN = ROOT / "lean"
EVIDENCE = Path(os.environ.get("VERIF_EVIDENCE_DIR", str(ROOT / "evidence")))  # seeded-change runs write elsewhere
REPLAYS = ROOT / "replays"
CORPUS = ROOT / "corpus"
KNOWN = ROOT / "known_findings.json"
def _repo_root() -> Path:
    """Root of the Open-Pectus tree the harness imports (normally /repo; a scratch worktree when
    PYTHONPATH points at one, which is how seeded changes are evaluated without touching /repo)."""
    if os.environ.get("VERIF_REPO"):
        return Path(os.environ["VERIF_REPO"])
    try:
        import importlib.util
        spec = importlib.util.find_spec("openpectus")
        if spec is not None and spec.origin:
            return Path(spec.origin).resolve().parent.parent
    except Exception:
        pass
    return Path("/repo")


REPO = _repo_root()


def _private_lean_workspace() -> None:
    """A run against a scratch tree (PYTHONPATH=<worktree>: seeded changes, experiments) regenerates the
    translated tables and rebuilds the models from THAT tree. It must not do so inside the shared project
    (another check running at the same time against /repo would build against the wrong tables), so it
    works in a private copy of the Lean project, removed at exit."""
    global LEAN
    if REPO.resolve() == Path("/repo") or os.environ.get("VERIF_SHARED_LEAN") == "1":
        return
    import atexit
    import shutil
    import tempfile
    for old in Path(tempfile.gettempdir()).glob("verif-lean-*"):   # left behind by killed runs
        try:
            owner = int(old.name.split("-")[2])
            if not Path(f"/proc/{owner}").exists():
                shutil.rmtree(old, ignore_errors=True)
        except (IndexError, ValueError):
            pass
    private = Path(tempfile.mkdtemp(prefix=f"verif-lean-{os.getpid()}-")) / "lean"
    shutil.copytree(LEAN, private, symlinks=True, ignore=shutil.ignore_patterns(".lock"))
    LEAN = private
    pid = os.getpid()
    atexit.register(lambda: os.getpid() == pid and shutil.rmtree(private.parent, ignore_errors=True))


_private_lean_workspace()

ALLOWED_AXIOMS = {"propext", "Classical.choice", "Quot.sound"}
FORBIDDEN = re.compile(
    r"\bsorry\b|\badmit\b|^\s*axiom\s|native_decide|bv_decide|implemented_by|\bunsafe\s|maxHeartbeats\s+0\b",
    re.M)

TRUSTED_BASE = [
    "Lean 4.33.0 kernel",
    "axioms: subset of {propext, Classical.choice, Quot.sound}; no native_decide, no bv_decide, no sorry",
    "the Python correspondence harness / translators in /verif (tie between model and /repo)",
    "the Lean model stands for the code: theorems are about the model, the code is tied by differential execution",
]


def harness_fault(exc: BaseException) -> bool:
    """True when an exception caught while driving the implementation was raised by the HARNESS reaching for
    something of the implementation that is not there (a renamed private helper / attribute / import): the frame
    that raised is harness code under /verif and the exception is an AttributeError / ImportError / NameError.
    Such an exception means the tie could not be established (broken correspondence), never that the property
    ("… never raises") failed. Oracles that turn exceptions into failures call `reraise_harness_fault` first."""
    if not isinstance(exc, (AttributeError, ImportError, NameError)):
        return False
    tb = exc.__traceback__
    last = None
    while tb is not None:
        last = tb
        tb = tb.tb_next
    if last is None:
        return False
    fn = last.tb_frame.f_code.co_filename
    return str(ROOT) in str(Path(fn).resolve()) if fn and not fn.startswith("<") else False


def reraise_harness_fault(exc: BaseException) -> None:
    if harness_fault(exc):
        raise RuntimeError(f"harness could not reach the implementation ({type(exc).__name__}: {exc}) — "
                           f"broken tie, not a property failure") from exc


class Infra(Exception):
    """Infrastructure failure: exit 2, never a VIOLATION."""


class DriverBroken(Infra):
    """The model driver does not build or crashed (e.g. a regenerated table broke a model)."""


_built_drivers: set[str] = set()


def tier() -> str:
    t = os.environ.get("VERIF_TIER", "quick")
    return t if t in ("quick", "thorough") else "quick"


def seed() -> int:
    try:
        return int(os.environ.get("VERIF_SEED", "0"))
    except ValueError:
        return 0


def rng_for(prop_id: str, salt: int = 0) -> random.Random:
    num = int(re.sub(r"\D", "", prop_id) or 0)
    return random.Random(seed() * 1000 + num + salt * 1_000_003)


# ----------------------------------------------------------------------------------------
# wire helpers (mirror of OPM.Wire)

def enc(s: str) -> str:
    return "-" if s == "" else ",".join(str(ord(c)) for c in s)


def dec(s: str) -> str:
    return "" if s == "-" else "".join(chr(int(x)) for x in s.split(","))


def encb(b: bool) -> str:
    return "1" if b else "0"


def ints(xs: Iterable[int]) -> str:
    xs = list(xs)
    return "-" if not xs else ",".join(str(int(x)) for x in xs)


# ----------------------------------------------------------------------------------------
# Lean side

class _Lock:
    def __init__(self, path: Path):
        self.path = path

    def __enter__(self):
        self.f = open(self.path, "w")
        fcntl.flock(self.f, fcntl.LOCK_EX)
        return self

    def __exit__(self, *a):
        fcntl.flock(self.f, fcntl.LOCK_UN)
        self.f.close()


def _run(cmd: Sequence[str], cwd: Path, timeout: float, input: str | None = None) -> subprocess.CompletedProcess:
    env = dict(os.environ)
    env.pop("PYTHONPATH", None)
    try:
        return subprocess.run(list(cmd), cwd=str(cwd), input=input, capture_output=True, text=True,
                              timeout=timeout, env=env)
    except subprocess.TimeoutExpired as e:
        raise Infra(f"timeout running {' '.join(cmd)}") from e
    except FileNotFoundError as e:
        raise Infra(f"tool not found: {cmd[0]}") from e


def lake_build(targets: Sequence[str], timeout: float = 1500) -> tuple[bool, str]:
    """Build the given lake targets (module names or the exe). Returns (ok, log)."""
    with _Lock(LEAN / ".lock"):
        p = _run(["lake", "build", *targets], LEAN, timeout)
    log = (p.stdout or "") + (p.stderr or "")
    return p.returncode == 0, log


def driver_modules(model: str) -> list[str]:
    """Modules imported by Driver/<model>.lean (they must be built before `lean --run`)."""
    src = (LEAN / "Driver" / f"{model}.lean").read_text()
    return re.findall(r"^import\s+(\S+)", src, re.M)


def strip_comments(src: str) -> str:
    # remove block comments (nesting-aware) and line comments
    out, i, depth, n = [], 0, 0, len(src)
    while i < n:
        if src.startswith("/-", i):
            depth += 1
            i += 2
        elif depth and src.startswith("-/", i):
            depth -= 1
            i += 2
        elif depth:
            i += 1
        elif src.startswith("--", i):
            while i < n and src[i] != "\n":
                i += 1
        else:
            out.append(src[i])
            i += 1
    return "".join(out)


def lean_sources() -> list[Path]:
    return sorted(p for d in ("OPM", "Driver") for p in (LEAN / d).rglob("*.lean")
                  if "Audit" not in p.parts)


def module_path(module: str) -> Path:
    return LEAN / (module.replace(".", "/") + ".lean")


def import_closure(roots: Iterable[str]) -> list[Path]:
    """Project files (OPM.*, Driver.*) transitively imported by the given modules / files."""
    seen: dict[str, Path] = {}
    todo = list(roots)
    while todo:
        m = todo.pop()
        if m in seen:
            continue
        f = module_path(m)
        if not f.exists():
            continue
        seen[m] = f
        for imp in re.findall(r"^\s*import\s+(\S+)", strip_comments(f.read_text()), re.M):
            if imp.startswith("OPM.") or imp.startswith("Driver."):
                todo.append(imp)
    return sorted(seen.values())


def forbidden_hits(files: Iterable[Path]) -> list[str]:
    hits = []
    for f in files:
        body = strip_comments(f.read_text())
        for m in FORBIDDEN.finditer(body):
            hits.append(f"{f.relative_to(LEAN)}: {m.group(0).strip()}")
    return hits


def theorems_in(module: str) -> list[str]:
    """Fully qualified names of every `theorem` declared in a module file (namespace aware)."""
    path = LEAN / (module.replace(".", "/") + ".lean")
    body = strip_comments(path.read_text())
    ns: list[str] = []
    out = []
    for line in body.splitlines():
        m = re.match(r"\s*namespace\s+(\S+)", line)
        if m:
            ns.append(m.group(1))
            continue
        m = re.match(r"\s*end\s+(\S+)", line)
        if m and ns and ns[-1] == m.group(1):
            ns.pop()
            continue
        m = re.match(r"\s*(?:@\[[^\]]*\]\s*)?(?:private\s+|protected\s+)?theorem\s+([^\s:({\[]+)", line)
        if m:
            out.append(".".join(ns + [m.group(1)]))
    return out


def audit(prop_id: str, module: str, theorems: Sequence[str], timeout: float = 600) -> dict[str, Any]:
    """`#print axioms` on every theorem; returns {'axioms': {thm: [..]}, 'bad': [...], 'log': str}."""
    d = LEAN / "OPM" / "Audit"
    d.mkdir(exist_ok=True)
    f = d / f"{prop_id}.lean"
    f.write_text(f"import {module}\n" + "".join(f"#print axioms {t}\n" for t in theorems))
    with _Lock(LEAN / ".lock"):
        p = _run(["lake", "env", "lean", str(f.relative_to(LEAN))], LEAN, timeout)
    log = (p.stdout or "") + (p.stderr or "")
    axioms: dict[str, list[str]] = {}
    for m in re.finditer(r"'([^']+)' depends on axioms: \[([^\]]*)\]", log, re.S):
        axioms[m.group(1)] = [a.strip() for a in m.group(2).replace("\n", " ").split(",") if a.strip()]
    for m in re.finditer(r"'([^']+)' does not depend on any axioms", log):
        axioms[m.group(1)] = []
    bad = []
    for t in theorems:
        if t not in axioms:
            bad.append(f"{t}: not checked ({'audit failed' if p.returncode else 'missing'})")
        else:
            extra = [a for a in axioms[t] if a not in ALLOWED_AXIOMS]
            if extra:
                bad.append(f"{t}: axioms {extra}")
    return {"axioms": axioms, "bad": bad, "log": log, "rc": p.returncode}


def drive(model: str, cases: Sequence[Sequence[str]], timeout: float = 900) -> list[list[str]]:
    """Feed each case (list of op lines) to the model driver, RESET between cases."""
    lines: list[str] = []
    for c in cases:
        lines.append("RESET")
        for ln in c:
            if "\n" in ln or "\r" in ln:
                raise Infra("newline inside op line")
            lines.append(ln)
    if model not in _built_drivers:
        ok, log = lake_build(driver_modules(model))
        if not ok:
            raise DriverBroken(f"model driver {model} does not build: " + log[-1500:])
        _built_drivers.add(model)
    p = _run(["lake", "env", "lean", "--run", f"Driver/{model}.lean"], LEAN, timeout,
             input="\n".join(lines) + "\n")
    if p.returncode != 0:
        raise DriverBroken(f"driver {model} failed rc={p.returncode}: {(p.stdout + p.stderr)[-2000:]}")
    out = p.stdout.split("\n")
    if out and out[-1] == "":
        out.pop()
    res: list[list[str]] = []
    for ln in out:
        if ln == "RESET":
            res.append([])
        else:
            if not res:
                raise Infra("driver output before RESET")
            res[-1].append(ln)
    if len(res) != len(cases):
        raise Infra(f"driver answered {len(res)} cases for {len(cases)}")
    return res


# ----------------------------------------------------------------------------------------
# timeouts for implementation calls

class ImplTimeout(Exception):
    pass


def with_timeout(seconds: float, fn: Callable[[], Any]) -> Any:
    def handler(signum, frame):
        raise ImplTimeout(f"implementation call exceeded {seconds}s")
    old = signal.signal(signal.SIGALRM, handler)
    signal.setitimer(signal.ITIMER_REAL, seconds)
    try:
        return fn()
    finally:
        signal.setitimer(signal.ITIMER_REAL, 0)
        signal.signal(signal.SIGALRM, old)


# ----------------------------------------------------------------------------------------
# results

@dataclass
class Failure:
    """The implementation violates the property on a concrete case."""
    key: str            # failure signature (kind + site), matched against known findings
    case: Any           # JSON-able replayable input
    detail: str


@dataclass
class Diff:
    """Model and implementation disagree on a concrete case."""
    stream: str
    case: Any
    line: int
    impl: str
    model: str


def load_known(prop_id: str) -> list[dict]:
    if not KNOWN.exists():
        return []
    data = json.loads(KNOWN.read_text())
    return [f for f in data.get("findings", []) if f.get("property") == prop_id]


def load_corpus(prop_id: str) -> list[Any]:
    d = CORPUS / prop_id
    if not d.is_dir():
        return []
    return [json.loads(p.read_text()) for p in sorted(d.glob("*.json"))]


class Check:
    def __init__(self, prop_id: str, level: str = "proof"):
        self.id = prop_id
        self.level = level
        self.t0 = time.time()
        self.tier = tier()
        self.seed = seed()
        self.rng = rng_for(prop_id)
        self.proof_broken: list[str] = []
        self.diffs: list[Diff] = []
        self.failures: list[Failure] = []
        self.known_seen: dict[str, Failure] = {}
        self.obligations = 0
        self.discharged = 0
        self.theorem_axioms: dict[str, list[str]] = {}
        self.evaluations = 0
        self.nontrivial: set[str] = set()
        self.samples: list[Any] = []
        self.streams: dict[str, dict[str, Any]] = {}
        self.distribution: dict[str, int] = {}
        self.assumptions: list[str] = []
        self.notes: list[str] = []
        self.rule = ""
        self.exhaustive: bool | None = None
        self.checker_cmd = ""
        self.extra: dict[str, Any] = {}
        self.known = load_known(prop_id)
        self.replay_case: Any = None
        self._drivers: list[str] = []
        self._proof_roots: list[str] = []

    # -- quantities scaled by tier
    def n(self, quick: int, thorough: int) -> int:
        return thorough if self.tier == "thorough" else quick

    def count(self, key: str, k: int = 1) -> None:
        self.distribution[key] = self.distribution.get(key, 0) + k

    # -- proof half ------------------------------------------------------------------
    def prove(self, module: str, required: Sequence[str] = (), extra_targets: Sequence[str] = ()) -> bool:
        """Build the property module, audit every theorem in it. `required` theorems must exist."""
        targets = [module, *extra_targets]
        self.checker_cmd = (f"cd lean && lake build {' '.join(targets)} && "
                            f"lake env lean OPM/Audit/{self.id}.lean  (#print axioms on every theorem; "
                            f"forbidden-token grep over lean/OPM, lean/Driver)")
        ok, log = lake_build([*targets, "Driver.Loop"])
        path = LEAN / (module.replace(".", "/") + ".lean")
        if not path.exists():
            self.proof_broken.append(f"property module {module} missing")
            return False
        thms = theorems_in(module)
        for r in required:
            if r not in thms:
                self.proof_broken.append(f"required theorem {r} is not stated in {module}")
        self.obligations = len(set(thms) | set(required))
        if not ok:
            errs = [ln for ln in log.splitlines() if "error" in ln.lower()][:8]
            self.proof_broken.append("lake build failed: " + " | ".join(errs or [log[-400:]]))
            return False
        # only what this property's theorems and drivers are built from (other properties' files may be
        # under construction)
        self._proof_roots = [module, *extra_targets]
        hits = forbidden_hits(import_closure(self._proof_roots + [f"Driver.{d}" for d in self._drivers]))
        if hits:
            self.proof_broken.append("forbidden tokens: " + "; ".join(hits[:6]))
        a = audit(self.id, module, thms)
        self.theorem_axioms = a["axioms"]
        for b in a["bad"]:
            self.proof_broken.append("audit: " + b)
        self.discharged = sum(1 for t in thms if t in a["axioms"]
                              and all(x in ALLOWED_AXIOMS for x in a["axioms"][t]))
        if self.tier == "thorough":
            self._leanchecker(targets)
        return not self.proof_broken

    def _leanchecker(self, modules: Sequence[str]) -> None:
        try:
            with _Lock(LEAN / ".lock"):
                p = _run(["lake", "env", "leanchecker", *modules], LEAN, 1500)
            self.extra["leanchecker_rc"] = p.returncode
            if p.returncode != 0:
                self.proof_broken.append("leanchecker rejected: " + (p.stdout + p.stderr)[-400:])
        except Infra as e:  # leanchecker is an extra, not the deciding step
            self.extra["leanchecker_rc"] = f"infra: {e}"

    # -- tie half --------------------------------------------------------------------
    def correspond(self, stream: str, model: str, cases: Sequence[Any],
                   lines: Callable[[Any], list[str]], impl: Callable[[Any], list[str]],
                   nontrivial: Callable[[Any, list[str]], bool] | None = None,
                   impl_timeout: float = 20.0) -> tuple[list[list[str]], list[list[str]]]:
        """Run impl and model on the same op lines, record disagreements.
        Returns (impl outputs, model outputs)."""
        if model not in self._drivers:
            self._drivers.append(model)
            hits = forbidden_hits(import_closure([f"Driver.{model}"]))
            if hits:
                self.proof_broken.append("forbidden tokens: " + "; ".join(hits[:6]))
        all_lines = [lines(c) for c in cases]
        impl_out: list[list[str]] = []
        for c in cases:
            try:
                o = with_timeout(impl_timeout, lambda: impl(c))
            except ImplTimeout as e:
                o = [f"TIMEOUT {e}"]
            except Infra:
                raise
            except Exception as e:  # the implementation side could not be driven on this case
                o = [f"harness-exception:{type(e).__name__}:{str(e)[:200]}"]
                self.notes.append(f"stream {stream}: driving the implementation raised {type(e).__name__}: {str(e)[:300]}")
            impl_out.append([str(x) for x in o])
        try:
            model_out = drive(model, all_lines)
        except DriverBroken as e:
            self.proof_broken.append(f"stream {stream}: {str(e)[:600]}")
            self.evaluations += len(cases)
            return impl_out, []
        st = self.streams.setdefault(stream, {"cases": 0, "lines": 0, "disagreements": 0})
        for c, io, mo in zip(cases, impl_out, model_out):
            st["cases"] += 1
            st["lines"] += len(io)
            self.evaluations += 1
            if nontrivial is None or nontrivial(c, io):
                self.nontrivial.add(_h(c))
            if len(self.samples) < 4:
                self.samples.append({"stream": stream, "case": c, "impl": io[:6]})
            if io != mo:
                k = next((i for i in range(max(len(io), len(mo)))
                          if i >= len(io) or i >= len(mo) or io[i] != mo[i]), 0)
                st["disagreements"] += 1
                self.diffs.append(Diff(stream, c, k, io[k] if k < len(io) else "<none>",
                                       mo[k] if k < len(mo) else "<none>"))
        return impl_out, model_out

    def selftest(self, stream: str, model: str, cases: Sequence[Any],
                 mutant_lines: Callable[[Any], list[str]], model_out: Sequence[list[str]]) -> None:
        """The generated cases must be discriminating: a deliberately wrong model variant has to
        disagree with the model proper on at least one case of the stream (otherwise the diff of
        this stream could not see that kind of change either)."""
        mo = drive(model, [mutant_lines(c) for c in cases])
        if all(a == b for a, b in zip(model_out, mo)):
            raise Infra(f"self-test of stream {stream}: mutant model indistinguishable — harness is blind")
        self.extra.setdefault("selftests", []).append(stream)

    def monitor(self, cases: Iterable[Any], oracle: Callable[[Any], Failure | list[Failure] | None],
                impl_timeout: float = 20.0, timeout_key: str | None = None) -> None:
        """Property oracle over the implementation (independent of the model)."""
        for c in cases:
            try:
                r = with_timeout(impl_timeout, lambda: oracle(c))
            except ImplTimeout as e:
                r = Failure(timeout_key or "impl-timeout", c, str(e))
            except Infra:
                raise
            except Exception as e:  # the oracle could not observe the implementation on this case
                self.proof_broken.append(f"oracle raised {type(e).__name__} on a case: {str(e)[:300]}")
                self.evaluations += 1
                continue
            self.evaluations += 1
            if r is None:
                continue
            for f in (r if isinstance(r, list) else [r]):
                self.fail(f)

    def fail(self, f: Failure) -> None:
        for k in self.known:
            if k["key"] == f.key:
                self.known_seen.setdefault(f.key, f)
                return
        self.failures.append(f)

    # -- decision rule ---------------------------------------------------------------
    def finish(self, search: Callable[["Check"], None] | None = None) -> int:
        broken = bool(self.proof_broken or self.diffs)
        if broken and not self.failures and search is not None:
            try:
                search(self)
            except Infra:
                raise
            except Exception as e:  # search is best-effort
                self.notes.append(f"search raised {type(e).__name__}: {e}")
        # a listed finding whose witness no longer fails: the as-is model no longer matches
        rc = 0
        out: list[str] = []
        for k in self.known:
            if k["key"] in self.known_seen:
                out.append(f"KNOWN-FINDING: property={self.id} {k['what']}")
            elif k.get("must_reproduce", True):
                self.notes.append(f"known finding {k['key']} was not reproduced in this run")
        REPLAYS.mkdir(exist_ok=True)
        if self.failures:
            f = self.failures[0]
            path = self._write_replay({"property": self.id, "kind": "failing-input", "key": f.key,
                                       "detail": f.detail, "case": f.case, "seed": self.seed,
                                       "tier": self.tier,
                                       "other_failures": [{"key": g.key, "detail": g.detail[:300]}
                                                          for g in self.failures[1:6]],
                                       "proof_broken": self.proof_broken,
                                       "disagreements": [_diff_json(d) for d in self.diffs[:3]]})
            out.append(f"VIOLATION property={self.id} replay={path}")
            rc = 1
        elif broken:
            path = self._write_replay({"property": self.id, "kind": "no-failing-input-found",
                                       "no_longer_checks": self.proof_broken +
                                       [f"correspondence stream {d.stream}" for d in self.diffs[:1]],
                                       "disagreements": [_diff_json(d) for d in self.diffs[:5]],
                                       "seed": self.seed, "tier": self.tier})
            out.append(f"VIOLATION property={self.id} replay={path} no-failing-input-found")
            rc = 1
        self._write_evidence(rc)
        for ln in out:
            print(ln)
        status = "OK" if rc == 0 else "FAIL"
        print(f"[{self.id}] {status} tier={self.tier} seed={self.seed} obligations={self.discharged}/"
              f"{self.obligations} evaluations={self.evaluations} diffs={len(self.diffs)} "
              f"failures={len(self.failures)} known={len(self.known_seen)} wall={time.time() - self.t0:.1f}s")
        for nline in self.notes[:10]:
            print(f"[{self.id}] note: {nline}")
        return rc

    def _write_replay(self, obj: dict) -> str:
        blob = json.dumps(obj, indent=1, sort_keys=True, default=str)
        h = hashlib.sha1(blob.encode()).hexdigest()[:10]
        p = REPLAYS / f"{self.id}-{h}.json"
        p.write_text(blob)
        return str(p.relative_to(ROOT))

    def _write_evidence(self, rc: int) -> None:
        EVIDENCE.mkdir(exist_ok=True)
        cov: dict[str, Any] = {
            "obligations": self.obligations,
            "discharged": self.discharged,
            "checker_cmd": self.checker_cmd or "n/a",
            "trusted_base": TRUSTED_BASE + [f"axioms used: {sorted({a for v in self.theorem_axioms.values() for a in v})}"],
            "theorems": self.theorem_axioms,
            "evaluations": self.evaluations,
            "distinct_nontrivial": len(self.nontrivial),
            "rule": self.rule,
            "samples": self.samples or [{"note": "no correspondence cases in this run"}],
            "correspondence_streams": self.streams,
            "disagreements_checked": len(self.diffs),
            "input_distribution": self.distribution,
            "known_findings_reproduced": sorted(self.known_seen),
            "proof_broken": self.proof_broken,
            "notes": self.notes,
        }
        if self.exhaustive is not None:
            cov["exhaustive"] = self.exhaustive
        cov.update(self.extra)
        ev = {
            "property_id": self.id, "tier": self.tier, "seed": self.seed, "level": self.level,
            "coverage": cov, "assumptions": self.assumptions,
            "wall_s": round(time.time() - self.t0, 2),
            "violations": 0 if rc == 0 else max(1, len(self.failures)),
        }
        (EVIDENCE / f"{self.id}.json").write_text(json.dumps(ev, indent=1, default=str) + "\n")


def _h(x: Any) -> str:
    return hashlib.sha1(json.dumps(x, sort_keys=True, default=str).encode()).hexdigest()


def _diff_json(d: Diff) -> dict:
    return {"stream": d.stream, "case": d.case, "first_differing_line": d.line, "impl": d.impl, "model": d.model}


def quiet_logging() -> None:
    import logging
    logging.disable(logging.CRITICAL)


def main_wrapper(fn: Callable[[], int]) -> None:
    try:
        rc = fn()
    except Infra as e:
        print(f"INFRA: {e}", file=sys.stderr)
        rc = 2
    sys.stdout.flush()
    sys.stderr.flush()
    os._exit(rc)  # skip interpreter teardown noise from repo generators
