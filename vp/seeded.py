"""Evaluate a seeded change:  /venv/bin/python -m vp.seeded <Cxx> <dir with mN.diff, mN_demo.py, mN.json> <mN> [--keep]

1. scratch worktree of /repo HEAD, demo on the clean tree (must exit 0);
2. apply the diff, demo again (must exit != 0), relevant tests (optional --tests "<pytest args>");
3. the property's quick check with PYTHONPATH on the worktree (the harness then imports the changed
   tree; translators follow `openpectus.__file__`) — expects exit 1 + VIOLATION;
4. prints a JSON verdict; with --keep copies patch/demo/meta into /verif/seeded/<Cxx>-<mN>/.
The worktree and its build output are removed at the end."""
from __future__ import annotations

import argparse
import json
import os
import shutil
import subprocess
import sys
from pathlib import Path

ROOT = Path(__file__).resolve().parent.parent
PY = "/venv/bin/python"


def sh(cmd, cwd=None, env=None, timeout=1800):
    p = subprocess.run(cmd, cwd=cwd, env=env, capture_output=True, text=True, timeout=timeout)
    return p.returncode, (p.stdout + p.stderr)


def main() -> int:
    ap = argparse.ArgumentParser()
    ap.add_argument("prop")
    ap.add_argument("src")
    ap.add_argument("name")
    ap.add_argument("--tests", default="")
    ap.add_argument("--keep", action="store_true")
    ap.add_argument("--checks", default="", help="comma-separated extra property ids to run as well")
    a = ap.parse_args()
    src = Path(a.src)
    if (src / "patch.diff").exists():
        # re-evaluation of a kept seeded change (seeded/<Cxx>-<mN>/ layout): stage it in the mN.* layout
        stage = Path(f"/tmp/seedstage-{a.prop}-{a.name}-{os.getpid()}")
        stage.mkdir(parents=True, exist_ok=True)
        shutil.copy(src / "patch.diff", stage / f"{a.name}.diff")
        shutil.copy(src / "demo.py", stage / f"{a.name}_demo.py")
        old = json.loads((src / "meta.json").read_text()) if (src / "meta.json").exists() else {}
        (stage / f"{a.name}.json").write_text(json.dumps({k: v for k, v in old.items() if k not in ("what_i_ran", "breaks")}))
        src = stage
    wt = Path(f"/tmp/seedeval-{a.prop}-{a.name}-{os.getpid()}")
    verdict: dict = {"property": a.prop, "name": a.name}
    sh(["git", "-C", "/repo", "worktree", "add", "-f", str(wt), "HEAD"])
    try:
        env = dict(os.environ, PYTHONPATH=str(wt))
        demo = src / f"{a.name}_demo.py"
        rc0, out0 = sh([PY, str(demo)], cwd=wt, env=env, timeout=600)
        verdict["demo_clean_rc"] = rc0
        rc, out = sh(["git", "-C", str(wt), "apply", str(src / f"{a.name}.diff")])
        verdict["applies"] = rc == 0
        if rc != 0:
            verdict["apply_error"] = out[-500:]
            print(json.dumps(verdict, indent=1))
            return 2
        rc1, out1 = sh([PY, str(demo)], cwd=wt, env=env, timeout=600)
        verdict["demo_mutant_rc"] = rc1
        verdict["demo_mutant_tail"] = out1[-400:]
        if a.tests:
            rct, outt = sh([PY, "-m", "pytest", "-q", "-p", "no:cacheprovider", "-x", *a.tests.split()], cwd=wt, env=env, timeout=1500)
            verdict["tests_rc"] = rct
            verdict["tests_tail"] = [l for l in outt.splitlines() if "passed" in l or "failed" in l][-2:]
        results = {}
        for pid in [a.prop] + [x for x in a.checks.split(",") if x]:
            rcc, outc = sh([PY, "-m", "vp.check", pid], cwd=ROOT,
                           env=dict(env, VERIF_TIER="quick", VERIF_EVIDENCE_DIR=f"/tmp/seedeval-evidence-{os.getpid()}"), timeout=1500)
            lines = [l for l in outc.splitlines() if l.startswith("VIOLATION") or l.startswith(f"[{pid}]") or l.startswith("KNOWN") or l.startswith("INFRA")]
            results[pid] = {"rc": rcc, "lines": [l[:300] for l in lines][:6]}
            for l in lines:
                if l.startswith("VIOLATION") and "replay=" in l:
                    rp = ROOT / l.split("replay=")[1].split()[0]
                    if rp.exists():
                        d = json.loads(rp.read_text())
                        results[pid]["replay_kind"] = d.get("kind")
                        results[pid]["replay_key"] = d.get("key")
                        results[pid]["replay_detail"] = str(d.get("detail"))[:300]
        verdict["checks"] = results
        verdict["caught"] = results[a.prop]["rc"] == 1
        verdict["valid_seed"] = (rc0 == 0 and rc1 != 0)
        print(json.dumps(verdict, indent=1))
        if a.keep:
            dst = ROOT / "seeded" / f"{a.prop}-{a.name}"
            dst.mkdir(parents=True, exist_ok=True)
            shutil.copy(src / f"{a.name}.diff", dst / "patch.diff")
            shutil.copy(demo, dst / "demo.py")
            meta = {}
            mj = src / f"{a.name}.json"
            if mj.exists():
                try:
                    meta = json.loads(mj.read_text())
                except Exception:
                    meta = {"raw": mj.read_text()[:2000]}
            meta.update({"breaks": a.prop, "what_i_ran": verdict})
            (dst / "meta.json").write_text(json.dumps(meta, indent=1))
        return 0
    finally:
        sh(["git", "-C", "/repo", "worktree", "remove", "--force", str(wt)])
        shutil.rmtree(wt, ignore_errors=True)
        shutil.rmtree(f"/tmp/seedeval-evidence-{os.getpid()}", ignore_errors=True)
        shutil.rmtree(f"/tmp/seedstage-{a.prop}-{a.name}-{os.getpid()}", ignore_errors=True)
        # the run above regenerated lean/OPM/Gen/*.lean from the scratch tree: put the tables of /repo back
        env0 = {k: v for k, v in os.environ.items() if k != "PYTHONPATH"}
        sh([PY, "-m", "vp.setup", "--tables-only"], cwd=ROOT, env=env0, timeout=600)


if __name__ == "__main__":
    raise SystemExit(main())
