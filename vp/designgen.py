"""Regenerates the generated parts of DESIGN.md (between <!-- GEN:x --> and <!-- /GEN:x --> markers):
   repairs, recorded findings, per-property summary, seeded-changes table.   python -m vp.designgen"""
from __future__ import annotations

import importlib
import io
import json
import re
import sys
from collections import defaultdict
from contextlib import redirect_stdout
from pathlib import Path

ROOT = Path(__file__).resolve().parent.parent
sys.path.insert(0, str(ROOT))


def repairs() -> str:
    k = json.loads((ROOT / "known_findings.json").read_text())
    out = ["| property | commit in /repo | what failed |", "|---|---|---|"]
    for s in sorted(k["fixed"]):
        m = re.match(r"fixed: property=(C\d+) (\S+) (.*)", s, re.S)
        if m:
            out.append(f"| {m.group(1)} | {m.group(2)} | {' '.join(m.group(3).split())[:260]} |")
    return "\n".join(out)


def findings() -> str:
    k = json.loads((ROOT / "known_findings.json").read_text())
    by = defaultdict(list)
    for f in k["findings"]:
        by[f["property"]].append(f)
    out = []
    for p in sorted(by):
        fs = by[p]
        if len(fs) > 12:
            kinds = sorted({f["key"].split(":")[0] for f in fs})
            out.append(f"* **{p}** — {len(fs)} narrow keys (one per site / unit pair / context) of these kinds: "
                       + ", ".join(f"`{x}`" for x in kinds) + f". Example: {' '.join(fs[0]['what'].split())[:300]}")
        else:
            for f in fs:
                out.append(f"* **{p}** `{f['key']}` — {' '.join(f['what'].split())[:330]}")
    return "\n".join(out)


def table() -> str:
    k = json.loads((ROOT / "known_findings.json").read_text())
    nf = defaultdict(int)
    for f in k["findings"]:
        nf[f["property"]] += 1
    nx = defaultdict(int)
    for s in k["fixed"]:
        m = re.search(r"property=(C\d+)", s)
        if m:
            nx[m.group(1)] += 1
    out = ["| id | theorems (required) | known findings | repairs | deciding method |", "|---|---|---|---|---|"]
    for i in range(1, 42):
        p = f"C{i:02d}"
        mod = importlib.import_module(f"props.{p}")
        th = len(re.findall(r"^theorem ", (ROOT / f"lean/OPM/Properties/{p}.lean").read_text(), re.M))
        out.append(f"| {p} | {th} ({len(mod.REQUIRED)}) | {nf.get(p, 0)} | {nx.get(p, 0)} | {mod.META['technique']} |")
    return "\n".join(out)


def seeded() -> str:
    from vp import seedtable
    buf = io.StringIO()
    with redirect_stdout(buf):
        seedtable.main()
    return buf.getvalue().strip()


def main() -> None:
    p = ROOT / "DESIGN.md"
    s = p.read_text()
    for name, fn in (("repairs", repairs), ("findings", findings), ("table", table), ("seeded", seeded)):
        a, b = f"<!-- GEN:{name} -->", f"<!-- /GEN:{name} -->"
        if a in s and b in s:
            i, j = s.index(a) + len(a), s.index(b)
            s = s[:i] + "\n" + fn() + "\n" + s[j:]
    p.write_text(s)
    print("DESIGN.md regenerated parts written")


if __name__ == "__main__":
    main()
