"""CLI:  /venv/bin/python -m vp.check <Cxx> [--tier quick|thorough] [--replay <path>]

exit 0: property shown to hold on the current tree (proof half + tie half), known findings printed
exit 1: `VIOLATION property=<id> replay=<path>` (see DESIGN.md §1 for the decision rule)
exit 2: infrastructure failure
"""
from __future__ import annotations

import argparse
import importlib
import json
import os
import sys
import warnings
from pathlib import Path

from . import core


def main() -> int:
    ap = argparse.ArgumentParser()
    ap.add_argument("prop")
    ap.add_argument("--tier", choices=["quick", "thorough"])
    ap.add_argument("--replay")
    a = ap.parse_args()
    if a.tier:
        os.environ["VERIF_TIER"] = a.tier
    warnings.filterwarnings("ignore")
    core.quiet_logging()
    try:
        mod = importlib.import_module(f"props.{a.prop}")
    except ModuleNotFoundError as e:
        if e.name == f"props.{a.prop}":
            raise core.Infra(f"no check for {a.prop}")
        raise
    if a.replay:
        p = Path(a.replay)
        if not p.is_absolute():
            p = core.ROOT / p
        obj = json.loads(p.read_text())
        if not hasattr(mod, "replay"):
            print(json.dumps(obj, indent=1))
            return 0
        return int(mod.replay(obj) or 0)
    ctx = core.Check(a.prop, getattr(mod, "LEVEL", "proof"))
    try:
        return int(mod.run(ctx))
    except core.Infra:
        raise
    except Exception as e:
        # The check could not establish the tie between model and code (the harness could not drive the
        # implementation): the property is no longer shown to hold.  Decision rule, path 2.
        import traceback
        tb = traceback.format_exc()
        print(tb, file=sys.stderr)
        ctx.proof_broken.append(f"check raised {type(e).__name__}: {str(e)[:400]} | {tb[-1200:]}")
        return ctx.finish()


if __name__ == "__main__":
    sys.path.insert(0, str(core.ROOT))
    core.main_wrapper(main)
