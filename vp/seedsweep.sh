#!/bin/sh
# quick checks over several seeds: sh vp/seedsweep.sh "2 3 4 5 6" C01 C02 ...
/venv/bin/python -m vp.setup > /dev/null 2>&1
seeds="$1"; shift
for p in "$@"; do
  for s in $seeds; do
    VERIF_SEED=$s VERIF_TIER=quick /venv/bin/python -m vp.check $p 2>&1 | grep -E "^\[C|^VIOLATION|^INFRA" | cut -c1-200
  done
done
