#!/bin/sh
# quick checks over several seeds: sh vp/seedsweep.sh "2 3 4 5 6" C01 C02 ...   (4 runs at a time)
/venv/bin/python -m vp.setup > /dev/null 2>&1
seeds="$1"; shift
for p in "$@"; do for s in $seeds; do echo "$s $p"; done; done | xargs -P 4 -L 1 sh -c 'VERIF_SEED=$0 VERIF_TIER=quick /venv/bin/python -m vp.check $1 2>&1 | grep -E "^\[C|^VIOLATION|^INFRA" | cut -c1-200'
