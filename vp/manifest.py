"""Regenerates MANIFEST.json from the META of every props/Cxx.py (run: python3 -m vp.manifest)."""
from __future__ import annotations

import importlib
import json
import sys
from pathlib import Path

ROOT = Path(__file__).resolve().parent.parent
PY = "/venv/bin/python"


def main() -> int:
    sys.path.insert(0, str(ROOT))
    ids = [json.loads(l)["id"] for l in (ROOT / "properties.jsonl").read_text().splitlines() if l.strip()]
    na_file = ROOT / "vp" / "not_applicable.json"
    na_reasons = json.loads(na_file.read_text()) if na_file.exists() else {}
    checks, na = [], []
    for pid in ids:
        if not (ROOT / "props" / f"{pid}.py").exists():
            na.append({"property_id": pid, "reason": na_reasons.get(pid, "no check built yet in this round (see DESIGN.md §11)")})
            continue
        m = importlib.import_module(f"props.{pid}")
        meta = getattr(m, "META")
        checks.append({
            "property_id": pid,
            "quick_cmd": f"VERIF_TIER=quick {PY} -m vp.check {pid}",
            "thorough_cmd": f"VERIF_TIER=thorough {PY} -m vp.check {pid}",
            "evidence_file": f"/verif/evidence/{pid}.json",
            "replay_cmd_template": f"{PY} -m vp.check {pid} --replay {{path}}",
            "engine": "lean4-proof+correspondence",
            "level_claimed": {"category": getattr(m, "LEVEL", "proof"), "text": meta["level_text"],
                              "design_ref": meta.get("design_ref", f"DESIGN.md §7 {pid}")},
            "level_note": meta["level_note"],
            "technique": meta["technique"],
        })
    man = {
        "version": 1,
        "setup_cmd": f"{PY} -m vp.setup",
        "hooks": {
            "guard": "OPEN_PECTUS_VERIF",
            "enable": "no source hooks: checks import /repo's working tree in-process (editable install in /venv) and "
                      "instrument it from the harness (monkey-patching module attributes, recording hardware, virtual clock)",
            "baseline_off_cmd": "cd /repo && /venv/bin/python -m pytest -ra -q -p no:cacheprovider --timeout=900 "
                                "--continue-on-collection-errors",
            "source_commits": [],
            "add_only": True,
        },
        "engines": [{
            "name": "lean4-proof+correspondence", "path": "/verif/lean",
            "serves_properties": [c["property_id"] for c in checks],
            "kind_free_text": "Lean 4 models + theorems (lake build, #print axioms audit), tied to /repo by a differential "
                              "correspondence harness (Python, in-process real code vs compiled model driver) and by "
                              "translators that regenerate Lean tables from the source",
        }],
        "checks": checks,
        "not_applicable": na,
        "notes": "Decision rule, trusted base and per-property design: DESIGN.md. Known findings: known_findings.json.",
    }
    (ROOT / "MANIFEST.json").write_text(json.dumps(man, indent=1) + "\n")
    print(f"MANIFEST.json: {len(checks)} checks, {len(na)} not_applicable")
    return 0


if __name__ == "__main__":
    raise SystemExit(main())
